/-
  The invariant carried along every chain of generated successors (C02, C05, C13):
    ring in place, en passant target well formed, incremental key = scratch key.
  `succsForTarget` is cut into four named stages (equal to the model definition by `rfl`).
-/
import Walleye.Proofs.Targets
namespace Walleye

/-- the square of the pawn that has just double-stepped, seen from the side to move `c` -/
def front (c : Color) (t : Point) : Point :=
  match c with
  | .white => ⟨t.row + 1, t.col⟩
  | .black => ⟨t.row - 1, t.col⟩

/-- an en passant target is on the board and the enemy pawn stands directly in front of it -/
def EpWF (p : Pos) : Prop :=
  ∀ t, p.ep = some t → OnBoard t ∧ OnBoard (front p.toMove t) ∧
    p.board.get (front p.toMove t).row (front p.toMove t).col = .full ⟨p.toMove.opp, .pawn⟩

structure Inv (h : Hasher) (p : Pos) : Prop where
  ring : RingOK p.board
  ep : EpWF p
  key : KeyOK h p

theorem ringOK_set (b : Board) (pt : Point) (v : Square) (hr : RingOK b) (hpt : OnBoard pt) :
    RingOK (b.set pt.row pt.col v) := by
  intro r c hne
  by_cases he : pt.row = r ∧ pt.col = c
  · obtain ⟨rfl, rfl⟩ := he; exact hpt
  · rw [Board.get_set_ne _ _ _ _ _ _ he] at hne; exact hr r c hne

theorem ringOK_movePiece (h : Hasher) (p : Pos) (s e : Point) (hr : RingOK p.board) (he : OnBoard e) :
    RingOK (p.movePiece h s e).board := by
  unfold Pos.movePiece
  cases hs : p.board.get s.row s.col with
  | empty => exact hr
  | boundary => exact hr
  | full cur =>
    have hson : OnBoard s := hr s.row s.col (by rw [hs]; simp)
    exact ringOK_set _ e _ (ringOK_set _ s _ hr hson) he

/-- `move_piece` keeps the key exact when the ring is in place and the destination is on the board -/
theorem keyOK_movePiece' (h : Hasher) (p : Pos) (s e : Point) (hr : RingOK p.board) (he : OnBoard e)
    (hk : KeyOK h p) : KeyOK h (p.movePiece h s e) := by
  cases hs : p.board.get s.row s.col with
  | full cur => exact keyOK_movePiece h p s e (hr s.row s.col (by rw [hs]; simp)) he hk
  | empty => unfold Pos.movePiece; rw [hs]; exact hk
  | boundary => unfold Pos.movePiece; rw [hs]; exact hk

/-! ### the four stages of one generated successor -/

/-- clone, side swap, king cache, capture score, piece moved, descriptor -/
def st1 (h : Hasher) (piece : Piece) (p : Pos) (sq mov : Point) : Pos :=
  let nb := { p with promo := none }
  let nb := nb.swapColor h
  let nb := if piece.kind = .king then
      (match piece.color with
       | .white => { nb with wk := mov }
       | .black => { nb with bk := mov })
    else nb
  let nb := match nb.board.get mov.row mov.col with
    | .full tp => { nb with oh := (Gen.mvvLva.getD (Gen.kindIndex tp.kind) #[]).getD (Gen.kindIndex piece.kind) 0 }
    | _ => { nb with oh := 0 }
  let nb := nb.movePiece h sq mov
  { nb with lastMove := some (sq, mov) }

/-- castling rights lost by the origin and by the destination square -/
def st2 (h : Hasher) (piece : Piece) (sq mov : Point) (nb : Pos) : Pos :=
  let nb :=
    if piece.kind = .king then
      (match piece.color with
       | .white => (nb.takeAway h .wks).takeAway h .wqs
       | .black => (nb.takeAway h .bks).takeAway h .bqs)
    else nb.takeAwayOpt h (cornerRight sq)
  nb.takeAwayOpt h (cornerRight mov)

/-- en passant target set by a double step, cleared otherwise -/
def st3 (h : Hasher) (piece : Piece) (sq mov : Point) (nb : Pos) : Pos :=
  if piece.kind = .pawn ∧ ((sq.row : Int) - mov.row).natAbs = 2 then
    let eps : Point := match piece.color with
      | .white => ⟨mov.row + 1, mov.col⟩
      | .black => ⟨mov.row - 1, mov.col⟩
    let nb := nb.unsetEp h
    { nb with ep := some eps, key := nb.key ^^^ h.epFile eps.col }
  else nb.unsetEp h

/-- promotion fan-out or the board itself -/
def st4 (h : Hasher) (piece : Piece) (sq mov : Point) (nb : Pos) : List Pos :=
  if mov.row = Gen.boardStart ∧ piece.color = .white ∧ piece.kind = .pawn then promotePawn h nb .white sq mov
  else if mov.row = Gen.boardEnd - 1 ∧ piece.color = .black ∧ piece.kind = .pawn then promotePawn h nb .black sq mov
  else [nb]

theorem succsForTarget_eq (h : Hasher) (piece : Piece) (p : Pos) (sq mov : Point) :
    succsForTarget h piece p sq mov =
      if isCheck (st1 h piece p sq mov) piece.color then []
      else st4 h piece sq mov (st3 h piece sq mov (st2 h piece sq mov (st1 h piece p sq mov))) := rfl

/-! ### stage facts -/

section
variable (h : Hasher) (piece : Piece) (p : Pos) (sq mov : Point)

theorem st1_toMove : (st1 h piece p sq mov).toMove = p.toMove.opp := by
  unfold st1
  simp only [movePiece_toMove]
  split <;> (split <;> (try split) <;> rfl)

theorem st1_ep : (st1 h piece p sq mov).ep = p.ep := by
  unfold st1
  simp only [movePiece_ep]
  split <;> (split <;> (try split) <;> rfl)

theorem st1_lastMove : (st1 h piece p sq mov).lastMove = some (sq, mov) := rfl

theorem st1_promo : (st1 h piece p sq mov).promo = none := by
  unfold st1
  simp only [movePiece_promo]
  split <;> (split <;> (try split) <;> rfl)

/-- the board after stage 1 is the parent's board with the piece moved -/
theorem st1_board : (st1 h piece p sq mov).board = (p.movePiece h sq mov).board := by
  unfold st1
  simp only
  -- none of the record updates before move_piece touches the board
  have : ∀ q : Pos, q.board = p.board → (q.movePiece h sq mov).board = (p.movePiece h sq mov).board := by
    intro q hq; unfold Pos.movePiece; rw [hq]; split <;> simp [hq]
  apply this
  split <;> (split <;> (try split) <;> rfl)

theorem st1_keyOK (hr : RingOK p.board) (hm : OnBoard mov) (hk : KeyOK h p) : KeyOK h (st1 h piece p sq mov) := by
  unfold st1
  simp only
  have h0 : KeyOK h ({ p with promo := none }.swapColor h) := keyOK_swapColor h _ hk
  -- king cache and order heuristic are not part of the key
  have step : ∀ q : Pos, KeyOK h q → q.board = p.board → KeyOK h (q.movePiece h sq mov) := by
    intro q hq hb; exact keyOK_movePiece' h q sq mov (hb ▸ hr) hm hq
  have : ∀ q : Pos, KeyOK h q → KeyOK h { q with lastMove := some (sq, mov) } := fun q hq => hq
  apply this
  apply step
  · split <;> (split <;> (try split) <;> exact h0)
  · split <;> (split <;> (try split) <;> rfl)

theorem st2_board (nb : Pos) : (st2 h piece sq mov nb).board = nb.board := by
  unfold st2
  simp only [takeAwayOpt_board]
  split
  · split <;> simp
  · simp [takeAwayOpt_board]

theorem st2_toMove (nb : Pos) : (st2 h piece sq mov nb).toMove = nb.toMove := by
  unfold st2
  simp only [takeAwayOpt_toMove]
  split
  · split <;> simp
  · simp [takeAwayOpt_toMove]

theorem st2_ep (nb : Pos) : (st2 h piece sq mov nb).ep = nb.ep := by
  unfold st2
  simp only [takeAwayOpt_ep]
  split
  · split <;> simp
  · simp [takeAwayOpt_ep]

theorem st2_lastMove (nb : Pos) : (st2 h piece sq mov nb).lastMove = nb.lastMove := by
  unfold st2
  simp only [takeAwayOpt_lastMove]
  split
  · split <;> simp
  · simp [takeAwayOpt_lastMove]

theorem st2_promo (nb : Pos) : (st2 h piece sq mov nb).promo = nb.promo := by
  unfold st2
  simp only [takeAwayOpt_promo]
  split
  · split <;> simp
  · simp [takeAwayOpt_promo]

theorem st2_keyOK (nb : Pos) (hk : KeyOK h nb) : KeyOK h (st2 h piece sq mov nb) := by
  unfold st2
  apply keyOK_takeAwayOpt
  split
  · split <;> exact keyOK_takeAway h _ _ (keyOK_takeAway h _ _ hk)
  · exact keyOK_takeAwayOpt h _ _ hk

theorem st3_board (nb : Pos) : (st3 h piece sq mov nb).board = nb.board := by
  unfold st3; split <;> simp

theorem st3_toMove (nb : Pos) : (st3 h piece sq mov nb).toMove = nb.toMove := by
  unfold st3; split <;> simp

theorem st3_lastMove (nb : Pos) : (st3 h piece sq mov nb).lastMove = nb.lastMove := by
  unfold st3; split <;> simp

theorem st3_promo (nb : Pos) : (st3 h piece sq mov nb).promo = nb.promo := by
  unfold st3; split <;> simp

theorem st3_keyOK (nb : Pos) (hk : KeyOK h nb) : KeyOK h (st3 h piece sq mov nb) := by
  unfold st3
  split
  · have hu := keyOK_unsetEp h nb hk
    unfold KeyOK scratchKey at hu ⊢
    dsimp only
    rw [hu]
    simp only [unsetEp_board, unsetEp_toMove, unsetEp_wks, unsetEp_wqs, unsetEp_bks, unsetEp_bqs, unsetEp_ep, epKey]
    xor_ac
  · exact keyOK_unsetEp h nb hk

end

/-! ### promotion fan-out -/

theorem mem_promotePawn (h : Hasher) (nb : Pos) (color : Color) (start target : Point) (s : Pos)
    (hs : s ∈ promotePawn h nb color start target) :
    ∃ kind, s = { (nb.unsetEp h) with
      board := (nb.unsetEp h).board.set target.row target.col (.full ⟨color, kind⟩)
      lastMove := some (start, target)
      promo := some ⟨color, kind⟩
      oh := if kind = .queen then Gen.queenPromotionScore else Gen.underPromotionScore
      key := (nb.unsetEp h).key ^^^ (h.piece ⟨color, kind⟩ target ^^^ h.piece ⟨color, .pawn⟩ target) } := by
  unfold promotePawn at hs
  obtain ⟨kind, _, rfl⟩ := List.mem_map.mp hs
  exact ⟨kind, rfl⟩

theorem promotePawn_inv (h : Hasher) (nb : Pos) (color : Color) (start target : Point)
    (hr : RingOK nb.board) (hk : KeyOK h nb) (ht : OnBoard target)
    (hp : nb.board.get target.row target.col = .full ⟨color, .pawn⟩) :
    ∀ s ∈ promotePawn h nb color start target,
      Inv h s ∧ s.toMove = nb.toMove ∧ s.lastMove = some (start, target) ∧ s.promo.isSome := by
  intro s hs
  obtain ⟨kind, rfl⟩ := mem_promotePawn h nb color start target s hs
  refine ⟨⟨?_, ?_, ?_⟩, ?_, rfl, rfl⟩
  · simp only [unsetEp_board]; exact ringOK_set _ target _ hr ht
  · intro t ht'; simp only [unsetEp_ep] at ht'; cases ht'
  · have hu := keyOK_unsetEp h nb hk
    unfold KeyOK scratchKey at hu ⊢
    dsimp only
    rw [hu, placementKey_set h _ target _ ht]
    simp only [unsetEp_board, hp, sqKey]
    xor_ac
  · simp only [unsetEp_toMove]

/-! ### one pseudo-legal target: every successor pushed keeps the invariant -/

theorem pawnMoves_row (piece : Piece) (row col : Nat) (b : Board) (mode : Mode) (pt : Point)
    (h : pt ∈ pawnMoves piece row col b mode) :
    (piece.color = .white → pt.row = row - 1 ∨ pt.row = row - 2) ∧
    (piece.color = .black → pt.row = row + 1 ∨ pt.row = row + 2) := by
  unfold pawnMoves at h
  cases hc : piece.color <;> simp only [hc] at h <;> simp only [List.mem_append] at h
  all_goals
    refine ⟨fun e => ?_, fun e => ?_⟩ <;> try (cases e)
    rcases h with (h | h) | h
    · split at h
      · simp only [List.mem_singleton] at h; subst h; exact Or.inl rfl
      · cases h
    · split at h
      · simp only [List.mem_singleton] at h; subst h; exact Or.inl rfl
      · cases h
    · split at h
      · cases List.mem_cons.mp h with
        | inl h1 => subst h1; exact Or.inl rfl
        | inr h2 =>
          split at h2
          · simp only [List.mem_singleton] at h2; subst h2; exact Or.inr rfl
          · cases h2
      · cases h

theorem piece_eq (piece : Piece) (c : Color) (k : Kind) (hc : piece.color = c) (hk : piece.kind = k) :
    piece = ⟨c, k⟩ := by cases piece; simp_all

theorem succsForTarget_inv (h : Hasher) (piece : Piece) (p : Pos) (sq mov : Point) (mode : Mode)
    (hinv : Inv h p) (hsq : OnBoard sq) (hpc : p.board.get sq.row sq.col = .full piece)
    (hcol : piece.color = p.toMove)
    (hmem : mov ∈ getMoves piece sq.row sq.col p.board mode) :
    ∀ s ∈ succsForTarget h piece p sq mov,
      Inv h s ∧ s.toMove = p.toMove.opp ∧ s.lastMove = some (sq, mov) := by
  intro s hs
  have hmov : OnBoard mov := getMoves_onBoard piece sq.row sq.col p.board mode hinv.ring mov hmem
  rw [succsForTarget_eq] at hs
  split at hs
  · cases hs
  · -- facts about the finalised board nb3
    have hb1 : (st1 h piece p sq mov).board = (p.board.set sq.row sq.col .empty).set mov.row mov.col (.full piece) := by
      rw [st1_board, movePiece_board_full h p sq mov piece hpc]
    have hb3 : (st3 h piece sq mov (st2 h piece sq mov (st1 h piece p sq mov))).board =
        (p.board.set sq.row sq.col .empty).set mov.row mov.col (.full piece) := by
      rw [st3_board, st2_board, hb1]
    have hr3 : RingOK (st3 h piece sq mov (st2 h piece sq mov (st1 h piece p sq mov))).board := by
      rw [hb3]; exact ringOK_set _ mov _ (ringOK_set _ sq _ hinv.ring hsq) hmov
    have hk3 : KeyOK h (st3 h piece sq mov (st2 h piece sq mov (st1 h piece p sq mov))) :=
      st3_keyOK h piece sq mov _ (st2_keyOK h piece sq mov _ (st1_keyOK h piece p sq mov hinv.ring hmov hinv.key))
    have ht3 : (st3 h piece sq mov (st2 h piece sq mov (st1 h piece p sq mov))).toMove = p.toMove.opp := by
      rw [st3_toMove, st2_toMove, st1_toMove]
    have hl3 : (st3 h piece sq mov (st2 h piece sq mov (st1 h piece p sq mov))).lastMove = some (sq, mov) := by
      rw [st3_lastMove, st2_lastMove, st1_lastMove]
    have hmr : mov.row < 12 ∧ mov.col < 12 := by unfold OnBoard at hmov; omega
    have hget : ((p.board.set sq.row sq.col .empty).set mov.row mov.col (.full piece)).get mov.row mov.col = .full piece :=
      Board.get_set_eq _ _ _ _ hmr.1 hmr.2
    -- en passant target of the finalised board
    have he3 : EpWF (st3 h piece sq mov (st2 h piece sq mov (st1 h piece p sq mov))) := by
      intro t ht
      rw [hb3, ht3]
      unfold st3 at ht
      split at ht
      · rename_i hd
        have ht' := (Option.some.inj ht).symm
        have hk : piece.kind = .pawn := hd.1
        have hrow := pawnMoves_row piece sq.row sq.col p.board mode mov (by
          unfold getMoves at hmem; simpa [hk] using hmem)
        have hd2 := hd.2
        unfold OnBoard at hsq hmov
        cases hc : piece.color
        · have hpe := piece_eq piece .white .pawn hc hk
          have hmrow : mov.row = sq.row - 2 := by have := hrow.1 hc; omega
          rw [← hcol, hc]
          simp only [hc] at ht'
          subst ht'
          refine ⟨?_, ?_, ?_⟩
          · unfold OnBoard; simp only; omega
          · unfold OnBoard front; simp only [Color.opp]; omega
          · have e : front Color.white.opp ⟨mov.row + 1, mov.col⟩ = ⟨mov.row, mov.col⟩ := by
              simp [front, Color.opp]
            rw [e]; simp only [Color.opp_opp]; rw [hget, hpe]
        · have hpe := piece_eq piece .black .pawn hc hk
          have hmrow : mov.row = sq.row + 2 := by have := hrow.2 hc; omega
          rw [← hcol, hc]
          simp only [hc] at ht'
          subst ht'
          refine ⟨?_, ?_, ?_⟩
          · unfold OnBoard; simp only; omega
          · unfold OnBoard front; simp only [Color.opp]; omega
          · have e : front Color.black.opp ⟨mov.row - 1, mov.col⟩ = ⟨mov.row, mov.col⟩ := by
              simp only [front, Color.opp]; congr; omega
            rw [e]; simp only [Color.opp_opp]; rw [hget, hpe]
      · simp only [unsetEp_ep] at ht; cases ht
    -- promotion fan-out or the board itself
    unfold st4 at hs
    split at hs
    · rename_i hpw
      have hpe := piece_eq piece .white .pawn hpw.2.1 hpw.2.2
      obtain ⟨hi, htm, hlm, _⟩ := promotePawn_inv h _ .white sq mov hr3 hk3 hmov (by rw [hb3, hget, hpe]) s hs
      exact ⟨hi, by rw [htm, ht3], hlm⟩
    · split at hs
      · rename_i hpb
        have hpe := piece_eq piece .black .pawn hpb.2.1 hpb.2.2
        obtain ⟨hi, htm, hlm, _⟩ := promotePawn_inv h _ .black sq mov hr3 hk3 hmov (by rw [hb3, hget, hpe]) s hs
        exact ⟨hi, by rw [htm, ht3], hlm⟩
      · simp only [List.mem_singleton] at hs
        subst hs
        exact ⟨⟨hr3, he3, hk3⟩, ht3, hl3⟩

/-! ### the en passant block -/

theorem pawnMovesEnPassant_eq (piece : Piece) (row col : Nat) (p : Pos) (mov : Point)
    (h : pawnMovesEnPassant piece row col p = some mov) : p.ep = some mov := by
  unfold pawnMovesEnPassant at h
  cases he : p.ep with
  | none => simp [he] at h
  | some dm =>
    simp only [he] at h
    split at h
    · cases h
    · rename_i l r _
      split at h
      · rename_i e; rw [← e]; exact congrArg some (Option.some.inj h)
      · split at h
        · rename_i e; rw [← e]; exact congrArg some (Option.some.inj h)
        · cases h

theorem epSuccs_inv (h : Hasher) (piece : Piece) (p : Pos) (sq : Point)
    (hinv : Inv h p) (hsq : OnBoard sq) (hpc : p.board.get sq.row sq.col = .full piece)
    (hcol : piece.color = p.toMove) :
    ∀ s ∈ epSuccs h piece p sq, Inv h s ∧ s.toMove = p.toMove.opp ∧ s.lastMove.isSome := by
  intro s hs
  unfold epSuccs at hs
  split at hs
  · split at hs
    · cases hs
    · rename_i mov hmv
      have hep := pawnMovesEnPassant_eq piece sq.row sq.col p mov hmv
      obtain ⟨hmov, hfon, hfp⟩ := hinv.ep mov hep
      -- the captured pawn's square is neither the origin nor the destination
      have hcap_ne_sq : ¬ (sq.row = (front p.toMove mov).row ∧ sq.col = (front p.toMove mov).col) := by
        intro ⟨e1, e2⟩
        rw [← e1, ← e2, hpc] at hfp
        have := congrArg Piece.color (Square.full.inj hfp)
        simp only at this
        rw [hcol] at this
        exact absurd this (Color.opp_ne p.toMove).symm
      have hcap_ne_mov : ¬ (mov.row = (front p.toMove mov).row ∧ mov.col = (front p.toMove mov).col) := by
        unfold OnBoard at hmov
        intro ⟨e1, _⟩
        unfold front at e1
        cases hc : p.toMove <;> simp only [hc] at e1 <;> omega
      -- the board after the king-independent part: piece moved
      have hbm : ∀ q : Pos, q.board = p.board →
          (q.movePiece h sq mov).board = (p.board.set sq.row sq.col .empty).set mov.row mov.col (.full piece) := by
        intro q hq
        rw [movePiece_board_full h q sq mov piece (by rw [hq]; exact hpc), hq]
      have hgetcap : ((p.board.set sq.row sq.col .empty).set mov.row mov.col (.full piece)).get
          (front p.toMove mov).row (front p.toMove mov).col = .full ⟨p.toMove.opp, .pawn⟩ := by
        rw [Board.get_set_ne _ _ _ _ _ _ hcap_ne_mov, Board.get_set_ne _ _ _ _ _ _ hcap_ne_sq, hfp]
      -- key and ring after clone / descriptor / swap / unset / move
      have hk0 : KeyOK h (((({ p with promo := none, lastMove := some (sq, mov) } : Pos).swapColor h).unsetEp h).movePiece h sq mov) := by
        apply keyOK_movePiece' h _ sq mov (by simp; exact hinv.ring) hmov
        exact keyOK_unsetEp h _ (keyOK_swapColor h _ hinv.key)
      have hb0 : ((({ p with promo := none, lastMove := some (sq, mov) } : Pos).swapColor h).unsetEp h |>.movePiece h sq mov).board
          = (p.board.set sq.row sq.col .empty).set mov.row mov.col (.full piece) := hbm _ (by simp)
      have hr0 : RingOK ((p.board.set sq.row sq.col .empty).set mov.row mov.col (.full piece)) :=
        ringOK_set _ mov _ (ringOK_set _ sq _ hinv.ring hsq) hmov
      cases hc : piece.color <;> simp only [hc] at hs
      all_goals
        split at hs
        · simp only [List.mem_singleton] at hs
          subst hs
          have hpt : p.toMove = piece.color := hcol.symm
          rw [hc] at hpt
          have hfr : front p.toMove mov = _ := rfl
          rw [hpt] at hfon hgetcap hfr
          simp only [front] at hfon hgetcap
          refine ⟨⟨?_, ?_, ?_⟩, ?_, ?_⟩
          · dsimp only; rw [hb0]; exact ringOK_set _ ⟨_, _⟩ _ hr0 hfon
          · intro t ht; simp at ht
          · unfold KeyOK scratchKey at hk0 ⊢
            dsimp only
            rw [hk0, hb0, placementKey_set h _ ⟨_, _⟩ _ hfon, hgetcap]
            simp only [movePiece_toMove, movePiece_wks, movePiece_wqs, movePiece_bks, movePiece_bqs, movePiece_ep, hb0,
              sqKey, Color.opp]
            xor_ac
          · simp [hpt]
          · simp
        · cases hs
  · cases hs

/-! ### castling -/

theorem castle_core (h : Hasher) (q : Pos) (k1 k2 r1 r2 : Point) (hq : RingOK q.board) (hk : KeyOK h q)
    (h2 : OnBoard k2) (h4 : OnBoard r2) :
    RingOK ((q.movePiece h k1 k2).movePiece h r1 r2).board ∧ KeyOK h ((q.movePiece h k1 k2).movePiece h r1 r2) ∧
    ((q.movePiece h k1 k2).movePiece h r1 r2).toMove = q.toMove ∧
    ((q.movePiece h k1 k2).movePiece h r1 r2).ep = q.ep ∧
    ((q.movePiece h k1 k2).movePiece h r1 r2).lastMove = q.lastMove := by
  have hr1 := ringOK_movePiece h q k1 k2 hq h2
  exact ⟨ringOK_movePiece h _ r1 r2 hr1 h4, keyOK_movePiece' h _ r1 r2 hr1 h4 (keyOK_movePiece' h q k1 k2 hq h2 hk),
    by simp, by simp, by simp⟩

theorem castleSucc_inv (h : Hasher) (p : Pos) (ct : CastlingType) (hinv : Inv h p) :
    Inv h (castleSucc h p ct) ∧ (castleSucc h p ct).toMove = p.toMove.opp ∧ (castleSucc h p ct).lastMove.isSome := by
  have hk0 : KeyOK h (({ p with promo := none } : Pos).swapColor h |>.unsetEp h) :=
    keyOK_unsetEp h _ (keyOK_swapColor h _ hinv.key)
  have hr0 : RingOK (({ p with promo := none } : Pos).swapColor h |>.unsetEp h).board := by simp; exact hinv.ring
  cases ct <;> unfold castleSucc <;> dsimp only
  all_goals
    -- q = the clone after swap / unset / rights / king cache / descriptor
    first
    | (obtain ⟨a, b, c, d, e⟩ := castle_core h
        { ((({ p with promo := none } : Pos).swapColor h |>.unsetEp h).takeAway h .wks).takeAway h .wqs with
          wk := ⟨9, 8⟩, lastMove := some (⟨Gen.wksAlg.1.1, Gen.wksAlg.1.2⟩, ⟨Gen.wksAlg.2.1, Gen.wksAlg.2.2⟩) }
        p.wk ⟨9, 8⟩ ⟨9, 9⟩ ⟨9, 7⟩ (by simp; exact hinv.ring) (keyOK_takeAway h _ _ (keyOK_takeAway h _ _ hk0))
        (by unfold OnBoard; simp) (by unfold OnBoard; simp)
       exact ⟨⟨a, fun t ht => by rw [d] at ht; simp at ht, b⟩, by rw [c]; simp, by rw [e]; rfl⟩)
    | (obtain ⟨a, b, c, d, e⟩ := castle_core h
        { ((({ p with promo := none } : Pos).swapColor h |>.unsetEp h).takeAway h .wks).takeAway h .wqs with
          wk := ⟨9, 4⟩, lastMove := some (⟨Gen.wqsAlg.1.1, Gen.wqsAlg.1.2⟩, ⟨Gen.wqsAlg.2.1, Gen.wqsAlg.2.2⟩) }
        p.wk ⟨9, 4⟩ ⟨9, 2⟩ ⟨9, 5⟩ (by simp; exact hinv.ring) (keyOK_takeAway h _ _ (keyOK_takeAway h _ _ hk0))
        (by unfold OnBoard; simp) (by unfold OnBoard; simp)
       exact ⟨⟨a, fun t ht => by rw [d] at ht; simp at ht, b⟩, by rw [c]; simp, by rw [e]; rfl⟩)
    | (obtain ⟨a, b, c, d, e⟩ := castle_core h
        { ((({ p with promo := none } : Pos).swapColor h |>.unsetEp h).takeAway h .bks).takeAway h .bqs with
          bk := ⟨2, 8⟩, lastMove := some (⟨Gen.bksAlg.1.1, Gen.bksAlg.1.2⟩, ⟨Gen.bksAlg.2.1, Gen.bksAlg.2.2⟩) }
        p.bk ⟨2, 8⟩ ⟨2, 9⟩ ⟨2, 7⟩ (by simp; exact hinv.ring) (keyOK_takeAway h _ _ (keyOK_takeAway h _ _ hk0))
        (by unfold OnBoard; simp) (by unfold OnBoard; simp)
       exact ⟨⟨a, fun t ht => by rw [d] at ht; simp at ht, b⟩, by rw [c]; simp, by rw [e]; rfl⟩)
    | (obtain ⟨a, b, c, d, e⟩ := castle_core h
        { ((({ p with promo := none } : Pos).swapColor h |>.unsetEp h).takeAway h .bks).takeAway h .bqs with
          bk := ⟨2, 4⟩, lastMove := some (⟨Gen.bqsAlg.1.1, Gen.bqsAlg.1.2⟩, ⟨Gen.bqsAlg.2.1, Gen.bqsAlg.2.2⟩) }
        p.bk ⟨2, 4⟩ ⟨2, 2⟩ ⟨2, 5⟩ (by simp; exact hinv.ring) (keyOK_takeAway h _ _ (keyOK_takeAway h _ _ hk0))
        (by unfold OnBoard; simp) (by unfold OnBoard; simp)
       exact ⟨⟨a, fun t ht => by rw [d] at ht; simp at ht, b⟩, by rw [c]; simp, by rw [e]; rfl⟩)

/-! ### the whole generator -/

theorem mem_castling (h : Hasher) (p s : Pos) (hs : s ∈ generateCastlingMoves h p) :
    ∃ ct, s = castleSucc h p ct := by
  unfold generateCastlingMoves at hs
  simp only [List.mem_append] at hs
  rcases hs with ((h1 | h1) | h1) | h1 <;> split at h1 <;>
    first
    | (cases h1; done)
    | (simp only [List.mem_singleton] at h1; exact ⟨_, h1⟩)

theorem generateMoves_inv (h : Hasher) (p : Pos) (mode : Mode) (hinv : Inv h p) :
    ∀ s ∈ generateMoves h p mode, Inv h s ∧ s.toMove = p.toMove.opp ∧ s.lastMove.isSome := by
  intro s hs
  unfold generateMoves at hs
  cases List.mem_append.mp hs with
  | inl h1 =>
    obtain ⟨pt, hpt, hin⟩ := List.mem_flatMap.mp h1
    have hon : OnBoard pt := (mem_boardCoords pt).mp hpt
    cases hsq : p.board.get pt.row pt.col with
    | empty => simp [hsq] at hin
    | boundary => simp [hsq] at hin
    | full piece =>
      simp only [hsq] at hin
      split at hin
      · rename_i hcol
        unfold generateMovesForPiece at hin
        cases List.mem_append.mp hin with
        | inl h2 =>
          obtain ⟨mov, hmov, hsm⟩ := List.mem_flatMap.mp h2
          obtain ⟨a, b, c⟩ := succsForTarget_inv h piece p pt mov mode hinv hon hsq hcol hmov s hsm
          exact ⟨a, b, by rw [c]; rfl⟩
        | inr h2 => exact epSuccs_inv h piece p pt hinv hon hsq hcol s h2
      · cases hin
  | inr h1 =>
    split at h1
    · obtain ⟨ct, rfl⟩ := mem_castling h p s h1
      exact castleSucc_inv h p ct hinv
    · cases h1

end Walleye
