/-
  C01 soundness and C02 together: every successor the generator pushes for an ordinary target
  carries a legal move of the specification and is `Spec.apply` of it.
-/
import Walleye.Proofs.PseudoLegal
namespace Walleye

/-- a well-formed model position: ring, no inner sentinel, king caches, and the abstraction is a
    legal chess position in the sense of the properties -/
structure WFp (p : Pos) : Prop where
  ring : RingOK p.board
  inner : InnerOK p.board
  kings : KingsOK p
  lp : LP (abs p)
  epb : ∀ t, p.ep = some t → OnBoard t

variable (h : Hasher)

theorem attacked_of (P : Spec.Position) (c : Color) (s t : Spec.Sq) (pc : Piece) (hs : InB s) (hat : P.at s = some pc)
    (hc : pc.color = c) (ha : Spec.attacksFrom P s pc t = true) : Spec.attacked P c t = true := by
  unfold Spec.attacked
  rw [List.any_eq_true]
  refine ⟨s, (mem_allSquares s).mpr hs, ?_⟩
  rw [hat]; simp [hc, ha]

/-- an ordinary pseudo-legal move never captures a king (the opponent is not in check) -/
theorem no_king_capture (p : Pos) (wf : WFp p) (o : Spec.Sq) (ho : InB o) (pc : Piece)
    (hpc : p.board.get (toPt o).row (toPt o).col = .full pc) (hcol : pc.color = p.toMove) (mov : Point) (hm : OnBoard mov)
    (hrule : normalRule (abs p) o pc (specOf mov) = true) :
    ∀ c, p.board.get mov.row mov.col ≠ .full ⟨c, .king⟩ := by
  intro c hk
  have hsrc : (abs p).at o = some pc := by rw [abs_at p o ho, hpc]; rfl
  have hdst : (abs p).at (specOf mov) = some ⟨c, .king⟩ := by rw [at_specOf p mov hm, hk]; rfl
  unfold normalRule at hrule
  simp only [Bool.and_eq_true] at hrule
  obtain ⟨hfree, hkr⟩ := hrule
  unfold tgtFree at hfree
  rw [hdst] at hfree
  have hne : c ≠ pc.color := by simpa using hfree
  have hcopp : c = (abs p).side.opp := by
    rw [abs_side, ← hcol]; cases c <;> cases hx : pc.color <;> simp_all [Color.opp]
  -- the move attacks the king's square
  have hatt : Spec.attacksFrom (abs p) o pc (specOf mov) = true := by
    obtain ⟨pcc, pk⟩ := pc
    cases pk with
    | pawn =>
      simp only at hkr
      by_cases hf : o.file = (specOf mov).file
      · have hif : (o.file == (specOf mov).file) = true := by simp [hf]
        rw [if_pos hif] at hkr
        simp only [Bool.and_eq_true] at hkr
        rw [hdst] at hkr; simp at hkr
      · have hif : ¬ (o.file == (specOf mov).file) = true := by simp [hf]
        rw [if_neg hif] at hkr
        simp only [Bool.and_eq_true] at hkr
        exact hkr.1
    | _ => exact hkr
  have hin := attacked_of (abs p) (abs p).side o (specOf mov) pc ho hsrc (by rw [abs_side]; exact hcol) hatt
  have hnc := wf.lp.notInCheck
  have : Spec.inCheck (abs p) (abs p).side.opp = true := by
    unfold Spec.inCheck Spec.kingSquares
    rw [List.any_eq_true]
    refine ⟨specOf mov, ?_, by rw [Color.opp_opp]; exact hin⟩
    rw [List.mem_filter]
    exact ⟨(mem_allSquares _).mpr (specOf_inB mov hm), by rw [hdst, hcopp]; simp⟩
  rw [this] at hnc; cases hnc

theorem moveOf_of (q : Pos) (a b : Point) (hl : q.lastMove = some (a, b)) :
    moveOf q = ⟨specOf a, specOf b, q.promo.map (·.kind)⟩ := by
  unfold moveOf; rw [hl]

/-- the row test of the promotion fan-out is the specification's last-rank test -/
theorem promo_row_iff (c : Color) (mov : Point) (hm : OnBoard mov) :
    (match c with | .white => mov.row = Gen.boardStart | .black => mov.row = Gen.boardEnd - 1) ↔
      (specOf mov).rank = Spec.lastRank c := by
  unfold OnBoard at hm
  unfold specOf Spec.lastRank
  cases c <;> simp only [Gen.boardStart, Gen.boardEnd] <;> omega

/-- **ordinary targets, soundness + C02**: every successor pushed for a pseudo-legal target carries
    a LEGAL move of the specification (from the piece's square to the target, promotion piece exactly
    when a pawn reaches the last rank) and is the specification's position after that move -/
theorem succsForTarget_sound (p : Pos) (wf : WFp p) (o : Spec.Sq) (ho : InB o) (pc : Piece)
    (hpc : p.board.get (toPt o).row (toPt o).col = .full pc) (hcol : pc.color = p.toMove) (mov : Point)
    (hmov : mov ∈ getMoves pc (toPt o).row (toPt o).col p.board .all) :
    ∀ q ∈ succsForTarget h pc p (toPt o) mov,
      (moveOf q).src = o ∧ (moveOf q).dst = specOf mov ∧
      Spec.legal (abs p) (moveOf q) = true ∧ abs q = Spec.apply (abs p) (moveOf q) := by
  intro q hq
  obtain ⟨hm, hrule⟩ := (getMoves_spec p wf.ring wf.inner o ho pc hpc mov).mp hmov
  have hR := rightsOK_of_LP p wf.lp
  have hnk := no_king_capture p wf o ho pc hpc hcol mov hm hrule
  have hsrc : (abs p).at o = some pc := by rw [abs_at p o ho, hpc]; rfl
  have hside : pc.color = (abs p).side := hcol
  have hin := specOf_inB mov hm
  rw [succsForTarget_eq] at hq
  by_cases hchk : isCheck (st1 h pc p (toPt o) mov) pc.color = true
  · rw [if_pos hchk] at hq; cases hq
  · rw [if_neg hchk] at hq
    have hnchk : isCheck (st1 h pc p (toPt o) mov) pc.color = false := by simpa using hchk
    -- the legality of ⟨o, t, pr⟩ from the rule, the flag and the king-safety test
    have legal_of : ∀ pr : Option Kind, promoOK (abs p).side pc (specOf mov) pr = true →
        (∀ k, pr = some k → pc.kind ≠ .king ∧ k ≠ .king) → Spec.legal (abs p) ⟨o, specOf mov, pr⟩ = true := by
      intro pr hpo hpk
      unfold Spec.legal
      rw [pseudoLegal_of_normal (abs p) o (specOf mov) pr pc ho hin hsrc hside hrule hpo,
        ← filter_normal h p wf.ring wf.inner wf.kings o ho pc hpc hcol mov hm hrule hnk pr hpk, hnchk]
      rfl
    unfold st4 at hq
    obtain ⟨c, k⟩ := pc
    simp only at hq hcol hside
    by_cases hw : mov.row = Gen.boardStart ∧ c = .white ∧ k = .pawn
    · rw [if_pos hw] at hq
      obtain ⟨hrow, rfl, rfl⟩ := hw
      have hlast := (promo_row_iff .white mov hm).mp hrow
      obtain ⟨kind, hkind, hpro, hlm, habs⟩ := promo_succ_abs h p hR o ho .white hpc hcol mov hm hrule hlast q hq
      have hmo : moveOf q = ⟨o, specOf mov, some kind⟩ := by
        rw [moveOf_of q _ _ hlm, hpro, specOf_toPt o ho]; rfl
      rw [hmo]
      refine ⟨rfl, rfl, legal_of (some kind) ?_ ?_, habs⟩
      · unfold promoOK
        rw [← hside]
        simp only [beq_self_eq_true, if_true, hlast]
        simp only [Gen.promotionOrder, List.mem_cons, List.mem_nil_iff, or_false] at hkind
        rcases hkind with rfl | rfl | rfl | rfl <;> decide
      · intro k' hk'
        injection hk' with hk'; subst hk'
        simp only [Gen.promotionOrder, List.mem_cons, List.mem_nil_iff, or_false] at hkind
        rcases hkind with rfl | rfl | rfl | rfl <;> exact ⟨by decide, by decide⟩
    · rw [if_neg hw] at hq
      by_cases hb : mov.row = Gen.boardEnd - 1 ∧ c = .black ∧ k = .pawn
      · rw [if_pos hb] at hq
        obtain ⟨hrow, rfl, rfl⟩ := hb
        have hlast := (promo_row_iff .black mov hm).mp hrow
        obtain ⟨kind, hkind, hpro, hlm, habs⟩ := promo_succ_abs h p hR o ho .black hpc hcol mov hm hrule hlast q hq
        have hmo : moveOf q = ⟨o, specOf mov, some kind⟩ := by
          rw [moveOf_of q _ _ hlm, hpro, specOf_toPt o ho]; rfl
        rw [hmo]
        refine ⟨rfl, rfl, legal_of (some kind) ?_ ?_, habs⟩
        · unfold promoOK
          rw [← hside]
          simp only [beq_self_eq_true, if_true, hlast]
          simp only [Gen.promotionOrder, List.mem_cons, List.mem_nil_iff, or_false] at hkind
          rcases hkind with rfl | rfl | rfl | rfl <;> decide
        · intro k' hk'
          injection hk' with hk'; subst hk'
          simp only [Gen.promotionOrder, List.mem_cons, List.mem_nil_iff, or_false] at hkind
          rcases hkind with rfl | rfl | rfl | rfl <;> exact ⟨by decide, by decide⟩
      · rw [if_neg hb] at hq
        simp only [List.mem_singleton] at hq
        subst hq
        have hlm : (st3 h ⟨c, k⟩ (toPt o) mov (st2 h ⟨c, k⟩ (toPt o) mov (st1 h ⟨c, k⟩ p (toPt o) mov))).lastMove
            = some (toPt o, mov) := by rw [st3_lastMove, st2_lastMove, st1_lastMove]
        have hpm : (st3 h ⟨c, k⟩ (toPt o) mov (st2 h ⟨c, k⟩ (toPt o) mov (st1 h ⟨c, k⟩ p (toPt o) mov))).promo = none := by
          rw [st3_promo, st2_promo, st1_promo]
        have hmo : moveOf (st3 h ⟨c, k⟩ (toPt o) mov (st2 h ⟨c, k⟩ (toPt o) mov (st1 h ⟨c, k⟩ p (toPt o) mov)))
            = ⟨o, specOf mov, none⟩ := by
          rw [moveOf_of _ _ _ hlm, hpm, specOf_toPt o ho]; rfl
        rw [hmo]
        refine ⟨rfl, rfl, legal_of none ?_ (fun k' hk' => by cases hk'),
          normal_succ_abs h p hR o ho ⟨c, k⟩ hpc hcol mov hm hrule⟩
        -- no promotion is due: not a pawn, or not on its last rank
        unfold promoOK
        by_cases hkp : k = .pawn
        · subst hkp
          simp only [beq_self_eq_true, if_true]
          have hnl : ¬ ((specOf mov).rank = Spec.lastRank (abs p).side) := by
            rw [← hside]
            intro hl
            have := (promo_row_iff c mov hm).mpr hl
            cases c
            · exact hw ⟨this, rfl, rfl⟩
            · exact hb ⟨this, rfl, rfl⟩
          simp [hnl]
        · have : (k == Kind.pawn) = false := by simpa using hkp
          simp [this]

end Walleye
