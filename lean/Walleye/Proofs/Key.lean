/-
  Helper lemmas for C05: the from-scratch key of a model position, the XOR-fold update lemma,
  and `KeyOK` preservation by the four board.rs mutators — for an ARBITRARY hasher.
-/
import Walleye.Model.MoveGen
namespace Walleye

def OnBoard (pt : Point) : Prop := 2 ≤ pt.row ∧ pt.row ≤ 9 ∧ 2 ≤ pt.col ∧ pt.col ≤ 9

instance (pt : Point) : Decidable (OnBoard pt) := by unfold OnBoard; infer_instance

/-- contribution of one square to the key -/
def sqKey (h : Hasher) (s : Square) (pt : Point) : UInt64 :=
  match s with
  | .full pc => h.piece pc pt
  | _ => 0

def xorFold (f : Point → UInt64) (l : List Point) : UInt64 := l.foldl (fun k pt => k ^^^ f pt) 0

def placementKey (h : Hasher) (b : Board) : UInt64 :=
  xorFold (fun pt => sqKey h (b.get pt.row pt.col) pt) boardCoords

def sideKey (h : Hasher) (c : Color) : UInt64 := match c with | .black => h.side | .white => 0

def rightKey (h : Hasher) (ct : CastlingType) (on : Bool) : UInt64 := if on then h.castle ct else 0

def epKey (h : Hasher) (ep : Option Point) : UInt64 := match ep with | some t => h.epFile t.col | none => 0

/-- the key computed from scratch: placement, side, four rights, en passant file -/
def scratchKey (h : Hasher) (p : Pos) : UInt64 :=
  placementKey h p.board ^^^ sideKey h p.toMove ^^^ rightKey h .wks p.wks ^^^ rightKey h .wqs p.wqs
    ^^^ rightKey h .bks p.bks ^^^ rightKey h .bqs p.bqs ^^^ epKey h p.ep

def KeyOK (h : Hasher) (p : Pos) : Prop := p.key = scratchKey h p

/-! ### XOR algebra -/

theorem xor_self_cancel (a b : UInt64) : a ^^^ b ^^^ b = a := by
  rw [UInt64.xor_assoc, UInt64.xor_self, UInt64.xor_zero]

theorem xor_right_comm' (a b c : UInt64) : a ^^^ b ^^^ c = a ^^^ c ^^^ b := by
  rw [UInt64.xor_assoc, UInt64.xor_comm b c, ← UInt64.xor_assoc]

theorem xor_left_comm' (a b c : UInt64) : a ^^^ (b ^^^ c) = b ^^^ (a ^^^ c) := by
  rw [← UInt64.xor_assoc, UInt64.xor_comm a b, UInt64.xor_assoc]

theorem xor_cancel_left' (a b : UInt64) : a ^^^ (a ^^^ b) = b := by
  rw [← UInt64.xor_assoc, UInt64.xor_self, UInt64.zero_xor]

/-- normalise an XOR expression modulo associativity, commutativity and x ^ x = 0 -/
macro "xor_ac" : tactic =>
  `(tactic| simp only [UInt64.xor_assoc, UInt64.xor_comm, xor_left_comm', xor_cancel_left', UInt64.xor_self,
      UInt64.xor_zero, UInt64.zero_xor])

theorem foldl_xor_init (f : Point → UInt64) (l : List Point) (k : UInt64) :
    l.foldl (fun k pt => k ^^^ f pt) k = k ^^^ l.foldl (fun k pt => k ^^^ f pt) 0 := by
  induction l generalizing k with
  | nil => simp
  | cons x xs ih =>
    simp only [List.foldl_cons]
    rw [ih (k ^^^ f x), ih (0 ^^^ f x), UInt64.zero_xor, UInt64.xor_assoc]

theorem xorFold_cons (f : Point → UInt64) (x : Point) (xs : List Point) :
    xorFold f (x :: xs) = f x ^^^ xorFold f xs := by
  unfold xorFold
  simp only [List.foldl_cons]
  rw [foldl_xor_init, UInt64.zero_xor]

theorem xorFold_congr (f g : Point → UInt64) (l : List Point) (h : ∀ pt ∈ l, f pt = g pt) :
    xorFold f l = xorFold g l := by
  induction l with
  | nil => rfl
  | cons x xs ih =>
    rw [xorFold_cons, xorFold_cons, h x (by simp), ih (fun pt hp => h pt (by simp [hp]))]

/-- changing `f` at one point of a duplicate-free list changes the fold by old ⊕ new -/
theorem xorFold_update (f g : Point → UInt64) (l : List Point) (p0 : Point)
    (hnd : l.Nodup) (hmem : p0 ∈ l) (hne : ∀ pt ∈ l, pt ≠ p0 → g pt = f pt) :
    xorFold g l = xorFold f l ^^^ f p0 ^^^ g p0 := by
  induction l with
  | nil => cases hmem
  | cons x xs ih =>
    rw [xorFold_cons, xorFold_cons]
    have hx : x ∉ xs := (List.nodup_cons.mp hnd).1
    have hxs : xs.Nodup := (List.nodup_cons.mp hnd).2
    by_cases hxp : x = p0
    · subst hxp
      have : xorFold g xs = xorFold f xs :=
        xorFold_congr g f xs (fun pt hp => hne pt (by simp [hp]) (fun e => hx (e ▸ hp)))
      rw [this]
      -- g x ^ F = f x ^ F ^ f x ^ g x
      rw [UInt64.xor_comm (f x) (xorFold f xs), xor_self_cancel, UInt64.xor_comm]
    · have hm : p0 ∈ xs := by
        cases List.mem_cons.mp hmem with
        | inl h => exact absurd h.symm hxp
        | inr h => exact h
      rw [ih hxs hm (fun pt hp hn => hne pt (by simp [hp]) hn), hne x (by simp) hxp]
      simp only [UInt64.xor_assoc]

theorem boardCoords_nodup : boardCoords.Nodup := by decide

theorem mem_boardCoords (pt : Point) : pt ∈ boardCoords ↔ OnBoard pt := by
  unfold boardCoords OnBoard
  simp only [List.mem_flatMap, List.mem_map, List.mem_range]
  constructor
  · rintro ⟨i, hi, j, hj, rfl⟩; simp only; omega
  · intro ⟨h1, h2, h3, h4⟩
    refine ⟨pt.row - 2, by omega, pt.col - 2, by omega, ?_⟩
    cases pt; simp only at *; congr <;> omega

/-- overwriting one on-board square changes the placement key by old ⊕ new -/
theorem placementKey_set (h : Hasher) (b : Board) (pt : Point) (v : Square) (hpt : OnBoard pt) :
    placementKey h (b.set pt.row pt.col v) =
      placementKey h b ^^^ sqKey h (b.get pt.row pt.col) pt ^^^ sqKey h v pt := by
  unfold placementKey
  have hr : pt.row < 12 := by unfold OnBoard at hpt; omega
  have hc : pt.col < 12 := by unfold OnBoard at hpt; omega
  rw [xorFold_update (fun q => sqKey h (b.get q.row q.col) q)
        (fun q => sqKey h ((b.set pt.row pt.col v).get q.row q.col) q) boardCoords pt
        boardCoords_nodup ((mem_boardCoords pt).mpr hpt)]
  · simp only [Board.get_set_eq b pt.row pt.col v hr hc]
  · intro q _ hq
    show sqKey h ((b.set pt.row pt.col v).get q.row q.col) q = sqKey h (b.get q.row q.col) q
    rw [Board.get_set_ne]
    intro ⟨e1, e2⟩
    apply hq
    cases q; cases pt; simp_all

/-! ### the four mutators -/

theorem keyOK_swapColor (h : Hasher) (p : Pos) (hk : KeyOK h p) : KeyOK h (p.swapColor h) := by
  unfold KeyOK Pos.swapColor scratchKey at *
  dsimp only
  rw [hk]
  cases hc : p.toMove <;> simp only [Color.opp, sideKey] <;> xor_ac

theorem keyOK_takeAway (h : Hasher) (p : Pos) (ct : CastlingType) (hk : KeyOK h p) :
    KeyOK h (p.takeAway h ct) := by
  unfold KeyOK Pos.takeAway scratchKey at *
  cases ct <;> simp only <;> split <;> try exact hk
  all_goals
    rename_i hon
    simp only [hon, rightKey, if_true] at hk ⊢
    rw [hk]
    simp only [Bool.false_eq_true, if_false]
    xor_ac

theorem keyOK_unsetEp (h : Hasher) (p : Pos) (hk : KeyOK h p) : KeyOK h (p.unsetEp h) := by
  unfold KeyOK Pos.unsetEp scratchKey at *
  cases he : p.ep with
  | none => simp only; rw [hk, he]
  | some t =>
    simp only [epKey]
    rw [hk, he]
    simp only [epKey]
    xor_ac

theorem scratchKey_board (h : Hasher) (p : Pos) (b : Board) :
    scratchKey h { p with board := b } = scratchKey h p ^^^ placementKey h p.board ^^^ placementKey h b := by
  unfold scratchKey
  simp only
  xor_ac

/-- `move_piece` keeps the key exact for any on-board squares (a start square without a piece is a no-op) -/
theorem keyOK_movePiece (h : Hasher) (p : Pos) (s e : Point) (hs : OnBoard s) (he : OnBoard e)
    (hk : KeyOK h p) : KeyOK h (p.movePiece h s e) := by
  unfold Pos.movePiece
  cases hsq : p.board.get s.row s.col with
  | empty => exact hk
  | boundary => exact hk
  | full cur =>
    unfold KeyOK scratchKey at *
    dsimp only
    rw [placementKey_set h _ e _ he, placementKey_set h _ s _ hs, hsq, hk]
    simp only [sqKey]
    cases (p.board.set s.row s.col .empty).get e.row e.col <;> dsimp only <;> xor_ac

end Walleye
