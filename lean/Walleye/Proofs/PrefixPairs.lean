/-
  C07, "a larger allowance only extends the sequence of reported improvements".
  Two runs of the same computation, clock expiring at the k-th consultation in the first and later
  (or never) in the second, from states that agree on everything but the expiry, proceed in
  lockstep — same values, same control flow, states still agreeing — until the k-th consultation;
  from then on the first run reports no further improvement (every acceptance at the root is
  guarded by a fresh consultation of the clock, and expiry is sticky) while the second can only
  append.  Packaged compositionally (`LkB`), with rules for pure / bind / if and the primitives, so
  that each function of the search is handled by the same structural tactic as in SearchInv.
-/
import Walleye.Proofs.Hoare
import Walleye.Proofs.Prefix
namespace Walleye

variable {P O : Type}

/-- the improvements reported so far, each WITH the board handed over for it: a `sent m` immediately
    followed by an `info i` is the pair (m, i); a `sent` that is not followed by an `info` (the
    fall-back board) is no improvement -/
def pairsAux : Option P → List (Report P) → List (P × Info)
  | _, [] => []
  | _, .sent m :: rest => pairsAux (some m) rest
  | some m, .info i :: rest => (m, i) :: pairsAux none rest
  | none, .info _ :: rest => pairsAux none rest

def infosOfB (rs : Array (Report P)) : List (P × Info) := pairsAux none rs.toList

theorem pairsAux_snoc_sent (p : P) : ∀ (l : List (Report P)) (o : Option P), pairsAux o (l ++ [.sent p]) = pairsAux o l := by
  intro l
  induction l with
  | nil => intro o; cases o <;> rfl
  | cons x xs ih =>
    intro o
    cases x with
    | sent m => simp only [List.cons_append, pairsAux]; exact ih _
    | info i => cases o <;> (simp only [List.cons_append, pairsAux]; rw [ih])

theorem pairsAux_snoc_info (i : Info) : ∀ (l : List (Report P)) (o : Option P), pairsAux o l <+: pairsAux o (l ++ [.info i]) := by
  intro l
  induction l with
  | nil => intro o; cases o <;> simp [pairsAux]
  | cons x xs ih =>
    intro o
    cases x with
    | sent m => simp only [List.cons_append, pairsAux]; exact ih _
    | info j =>
      cases o with
      | none => simp only [List.cons_append, pairsAux]; exact ih _
      | some m =>
        simp only [List.cons_append, pairsAux]
        exact List.prefix_cons_inj _ |>.mpr (ih _)

def SS.pairs (s : SS P O) : List (P × Info) := infosOfB s.reports

def Res.stB {σ α : Type} : Res σ α → σ
  | .ok _ s => s
  | .panic s => s
  | .fuel s => s

def setEB (x : Option Nat) (s : SS P O) : SS P O := { s with expiry := x }

def Res.mapStB {σ α : Type} (f : σ → σ) : Res σ α → Res σ α
  | .ok a s => .ok a (f s)
  | .panic s => .panic (f s)
  | .fuel s => .fuel (f s)

/-- the second clock expires no earlier than the first -/
def LaterB (k : Nat) : Option Nat → Prop
  | none => True
  | some k' => k ≤ k'

/-- the two runs agree on everything but the expiry, and the first has not expired yet -/
structure SimB (k : Nat) (e2 : Option Nat) (s1 s2 : SS P O) : Prop where
  e1 : s1.expiry = some k
  e2 : s2.expiry = e2
  le : s1.queries ≤ k
  eq : setEB none s1 = setEB none s2

/-- outcome of the two runs: still in lockstep, or the first has expired and its improvements are
    a prefix of the second's -/
def OutB (k : Nat) (e2 : Option Nat) {α : Type} (r1 r2 : Res (SS P O) α) : Prop :=
  (match r1, r2 with
   | .ok a s1, .ok b s2 => a = b ∧ SimB k e2 s1 s2
   | .panic s1, .panic s2 => SimB k e2 s1 s2
   | .fuel s1, .fuel s2 => SimB k e2 s1 s2
   | _, _ => False) ∨
  (r1.stB.expired = true ∧ r1.stB.pairs <+: r2.stB.pairs)

structure LkB (k : Nat) (e2 : Option Nat) {α : Type} (m : M (SS P O) α) : Prop where
  quiet : ∀ s, s.expired = true → (m s).stB.pairs = s.pairs ∧ (m s).stB.expired = true
  mono : ∀ s, s.pairs <+: (m s).stB.pairs
  lock : ∀ s1 s2, SimB k e2 s1 s2 → OutB k e2 (m s1) (m s2)

variable {k : Nat} {e2 : Option Nat}

theorem SimB.pairs {s1 s2 : SS P O} (h : SimB k e2 s1 s2) : s1.pairs = s2.pairs := by
  have : (setEB none s1).reports = (setEB none s2).reports := by rw [h.eq]
  unfold SS.pairs
  exact congrArg infosOfB this

theorem LkB.pure {α : Type} (a : α) : LkB k e2 (pure a : M (SS P O) α) :=
  ⟨fun s hs => ⟨rfl, hs⟩, fun s => List.prefix_refl _, fun s1 s2 h => Or.inl ⟨rfl, h⟩⟩

theorem bind_st_okB {α β : Type} {m : M (SS P O) α} {f : α → M (SS P O) β} {s s' : SS P O} {a : α}
    (h : m s = .ok a s') : ((m >>= f) s) = f a s' := bind_of_ok h

theorem LkB.bind {α β : Type} {m : M (SS P O) α} {f : α → M (SS P O) β}
    (h1 : LkB k e2 m) (h2 : ∀ a, LkB k e2 (f a)) : LkB k e2 (m >>= f) := by
  refine ⟨?_, ?_, ?_⟩
  · intro s hs
    obtain ⟨q1, q2⟩ := h1.quiet s hs
    cases hm : m s with
    | ok a s' =>
      rw [bind_of_ok hm]; rw [hm] at q1 q2
      obtain ⟨r1, r2⟩ := (h2 a).quiet s' q2
      exact ⟨r1.trans q1, r2⟩
    | panic s' => rw [bind_of_panic hm]; rw [hm] at q1 q2; exact ⟨q1, q2⟩
    | fuel s' => rw [bind_of_fuel hm]; rw [hm] at q1 q2; exact ⟨q1, q2⟩
  · intro s
    have q := h1.mono s
    cases hm : m s with
    | ok a s' => rw [bind_of_ok hm]; rw [hm] at q; exact q.trans ((h2 a).mono s')
    | panic s' => rw [bind_of_panic hm]; rw [hm] at q; exact q
    | fuel s' => rw [bind_of_fuel hm]; rw [hm] at q; exact q
  · intro s1 s2 hsim
    have hl := h1.lock s1 s2 hsim
    -- the states after the continuation, in the diverged case
    have div : (m s1).stB.expired = true → (m s1).stB.pairs <+: (m s2).stB.pairs →
        OutB k e2 ((m >>= f) s1) ((m >>= f) s2) := by
      intro hx hp
      right
      have a1 : ((m >>= f) s1).stB.pairs = (m s1).stB.pairs ∧ ((m >>= f) s1).stB.expired = true := by
        cases hm : m s1 with
        | ok a s' => rw [bind_of_ok hm]; rw [hm] at hx; exact (h2 a).quiet s' hx
        | panic s' => rw [bind_of_panic hm]; rw [hm] at hx; exact ⟨rfl, hx⟩
        | fuel s' => rw [bind_of_fuel hm]; rw [hm] at hx; exact ⟨rfl, hx⟩
      have a2 : (m s2).stB.pairs <+: ((m >>= f) s2).stB.pairs := by
        cases hm : m s2 with
        | ok a s' => rw [bind_of_ok hm]; exact (h2 a).mono s'
        | panic s' => rw [bind_of_panic hm]; exact List.prefix_refl _
        | fuel s' => rw [bind_of_fuel hm]; exact List.prefix_refl _
      exact ⟨a1.2, by rw [a1.1]; exact hp.trans a2⟩
    rcases hl with hl | ⟨hx, hp⟩
    · cases hm1 : m s1 with
      | ok a s1' =>
        cases hm2 : m s2 with
        | ok b s2' =>
          rw [hm1, hm2] at hl
          obtain ⟨rfl, hs⟩ := hl
          rw [bind_of_ok hm1, bind_of_ok hm2]
          exact (h2 a).lock s1' s2' hs
        | panic s2' => rw [hm1, hm2] at hl; exact absurd hl id
        | fuel s2' => rw [hm1, hm2] at hl; exact absurd hl id
      | panic s1' =>
        cases hm2 : m s2 with
        | ok b s2' => rw [hm1, hm2] at hl; exact absurd hl id
        | panic s2' =>
          rw [hm1, hm2] at hl
          rw [bind_of_panic hm1, bind_of_panic hm2]
          exact Or.inl hl
        | fuel s2' => rw [hm1, hm2] at hl; exact absurd hl id
      | fuel s1' =>
        cases hm2 : m s2 with
        | ok b s2' => rw [hm1, hm2] at hl; exact absurd hl id
        | panic s2' => rw [hm1, hm2] at hl; exact absurd hl id
        | fuel s2' =>
          rw [hm1, hm2] at hl
          rw [bind_of_fuel hm1, bind_of_fuel hm2]
          exact Or.inl hl
    · exact div hx hp

theorem LkB.ite {α : Type} {c : Prop} [Decidable c] {m1 m2 : M (SS P O) α}
    (h1 : LkB k e2 m1) (h2 : LkB k e2 m2) : LkB k e2 (if c then m1 else m2) := by
  by_cases hc : c
  · rw [if_pos hc]; exact h1
  · rw [if_neg hc]; exact h2

/-! ### primitives that neither read nor write the clock, and report no improvement -/

structure AgnB {α : Type} (m : M (SS P O) α) : Prop where
  comm : ∀ s x, m (setEB x s) = (m s).mapStB (setEB x)
  q : ∀ s, (m s).stB.queries = s.queries
  inf : ∀ s, (m s).stB.pairs = s.pairs

theorem setE_selfB (s : SS P O) : setEB s.expiry s = s := rfl

theorem AgnB.expiry {α : Type} {m : M (SS P O) α} (h : AgnB m) (s : SS P O) : (m s).stB.expiry = s.expiry := by
  have := h.comm s s.expiry
  rw [setE_selfB] at this
  generalize m s = r at this ⊢
  cases r with
  | ok a t => simp only [Res.mapStB] at this; injection this with _ e; show t.expiry = _; rw [e]; rfl
  | panic t => simp only [Res.mapStB] at this; injection this with e; show t.expiry = _; rw [e]; rfl
  | fuel t => simp only [Res.mapStB] at this; injection this with e; show t.expiry = _; rw [e]; rfl

/-- lockstep outcome, never diverged -/
def SameB (k : Nat) (e2 : Option Nat) {α : Type} (r1 r2 : Res (SS P O) α) : Prop :=
  match r1, r2 with
  | .ok a s1, .ok b s2 => a = b ∧ SimB k e2 s1 s2
  | .panic s1, .panic s2 => SimB k e2 s1 s2
  | .fuel s1, .fuel s2 => SimB k e2 s1 s2
  | _, _ => False

theorem expiry_of_commB {α : Type} {m : M (SS P O) α} (hc : ∀ s x, m (setEB x s) = (m s).mapStB (setEB x)) (s : SS P O) :
    (m s).stB.expiry = s.expiry := by
  have := hc s s.expiry
  rw [setE_selfB] at this
  generalize m s = r at this ⊢
  cases r with
  | ok a t => simp only [Res.mapStB] at this; injection this with _ e; show t.expiry = _; rw [e]; rfl
  | panic t => simp only [Res.mapStB] at this; injection this with e; show t.expiry = _; rw [e]; rfl
  | fuel t => simp only [Res.mapStB] at this; injection this with e; show t.expiry = _; rw [e]; rfl

/-- a computation that commutes with changing the expiry and does not consult the clock stays in lockstep -/
theorem sync_of_commB {α : Type} {m : M (SS P O) α} (hc : ∀ s x, m (setEB x s) = (m s).mapStB (setEB x))
    (hq : ∀ s, (m s).stB.queries = s.queries) (s1 s2 : SS P O) (hsim : SimB k e2 s1 s2) :
    SameB k e2 (m s1) (m s2) := by
  have c1 := hc s1 none
  have c2 := hc s2 none
  rw [hsim.eq, c2] at c1
  have x1 := expiry_of_commB hc s1
  have x2 := expiry_of_commB hc s2
  have q1 := hq s1
  generalize m s1 = r1 at c1 x1 q1 ⊢
  generalize m s2 = r2 at c1 x2 ⊢
  have mk : ∀ t1 t2 : SS P O, t1.expiry = s1.expiry → t2.expiry = s2.expiry → t1.queries = s1.queries →
      setEB none t2 = setEB none t1 → SimB k e2 t1 t2 := by
    intro t1 t2 a b c d
    exact ⟨by rw [a]; exact hsim.e1, by rw [b]; exact hsim.e2, by rw [c]; exact hsim.le, d.symm⟩
  cases r1 <;> cases r2 <;> simp only [Res.mapStB] at c1 <;> first
    | (injection c1 with ea es; exact ⟨ea.symm, mk _ _ x1 x2 q1 es⟩)
    | (injection c1 with es; exact mk _ _ x1 x2 q1 es)
    | (injection c1)

theorem LkB.of_agn {α : Type} {m : M (SS P O) α} (h : AgnB m) : LkB k e2 m := by
  have hexp : ∀ s, (m s).stB.expired = s.expired := by
    intro s
    unfold SS.expired
    rw [h.expiry s, h.q s]
  exact ⟨fun s hs => ⟨h.inf s, by rw [hexp]; exact hs⟩, fun s => by rw [h.inf s]; exact List.prefix_refl _,
    fun s1 s2 hsim => Or.inl (sync_of_commB h.comm h.q s1 s2 hsim)⟩

theorem nodeSearched_agnB : AgnB (nodeSearched : M (SS P O) Unit) :=
  ⟨fun _ _ => rfl, fun _ => rfl, fun _ => rfl⟩

theorem insertCur_agnB (ply : Nat) (mv : Option Mv) : AgnB (insertCur ply mv : M (SS P O) Unit) := by
  refine ⟨fun s x => ?_, fun s => ?_, fun s => ?_⟩
  · unfold insertCur
    by_cases hc : ply < s.cur.size
    · have hc' : ply < (setEB x s).cur.size := hc
      rw [if_pos hc, if_pos hc']; rfl
    · have hc' : ¬ ply < (setEB x s).cur.size := hc
      rw [if_neg hc, if_neg hc']; rfl
  · unfold insertCur; split <;> rfl
  · unfold insertCur; split <;> rfl

theorem setPV_agnB : AgnB (setPV : M (SS P O) Unit) :=
  ⟨fun _ _ => rfl, fun _ => rfl, fun _ => rfl⟩

theorem getPV_agnB (ply : Nat) : AgnB (getPV ply : M (SS P O) (Option Mv)) := by
  refine ⟨fun s x => ?_, fun s => ?_, fun s => ?_⟩
  · unfold getPV
    by_cases hc : ply < s.pv.size
    · have hc' : ply < (setEB x s).pv.size := hc
      rw [dif_pos hc, dif_pos hc']; rfl
    · have hc' : ¬ ply < (setEB x s).pv.size := hc
      rw [dif_neg hc, dif_neg hc']; rfl
  · unfold getPV; split <;> rfl
  · unfold getPV; split <;> rfl

theorem getKillers_agnB (ply : Nat) : AgnB (getKillers ply : M (SS P O) (Array (Option Mv))) := by
  refine ⟨fun s x => ?_, fun s => ?_, fun s => ?_⟩
  · unfold getKillers
    by_cases hc : ply < s.killers.size
    · have hc' : ply < (setEB x s).killers.size := hc
      rw [dif_pos hc, dif_pos hc']; rfl
    · have hc' : ¬ ply < (setEB x s).killers.size := hc
      rw [dif_neg hc, dif_neg hc']; rfl
  · unfold getKillers; split <;> rfl
  · unfold getKillers; split <;> rfl

theorem insertKiller_agnB (ply : Nat) (mv : Option Mv) : AgnB (insertKiller ply mv : M (SS P O) Unit) := by
  refine ⟨fun s x => ?_, fun s => ?_, fun s => ?_⟩
  · unfold insertKiller
    by_cases hc : ply < s.killers.size
    · have hc' : ply < (setEB x s).killers.size := hc
      rw [dif_pos hc, dif_pos hc']
      show (if (s.killers[ply]).contains mv = true then _ else _) = Res.mapStB (setEB x) (if (s.killers[ply]).contains mv = true then _ else _)
      by_cases hk : (s.killers[ply]).contains mv = true
      · rw [if_pos hk, if_pos hk]; rfl
      · rw [if_neg hk, if_neg hk]; rfl
    · have hc' : ¬ ply < (setEB x s).killers.size := hc
      rw [dif_neg hc, dif_neg hc']; rfl
  · unfold insertKiller; split
    · dsimp only; split <;> rfl
    · rfl
  · unfold insertKiller; split
    · dsimp only; split <;> rfl
    · rfl

theorem tableAdd_agnB (key : UInt64) : AgnB (tableAdd key : M (SS P O) Unit) := by
  refine ⟨fun s x => ?_, fun s => ?_, fun s => ?_⟩
  · unfold tableAdd
    show (match s.table.add key with | some t => _ | none => _) = _
    cases s.table.add key <;> rfl
  · unfold tableAdd; cases s.table.add key <;> rfl
  · unfold tableAdd; cases s.table.add key <;> rfl

theorem tableRemove_agnB (key : UInt64) : AgnB (tableRemove key : M (SS P O) Unit) := by
  refine ⟨fun s x => ?_, fun s => ?_, fun s => ?_⟩
  · unfold tableRemove
    show (match s.table.remove key with | some t => _ | none => _) = _
    cases s.table.remove key <;> rfl
  · unfold tableRemove; cases s.table.remove key <;> rfl
  · unfold tableRemove; cases s.table.remove key <;> rfl

theorem infosOf_push_sentB (rs : Array (Report P)) (p : P) : infosOfB (rs.push (.sent p)) = infosOfB rs := by
  unfold infosOfB; rw [Array.toList_push]; exact pairsAux_snoc_sent p rs.toList none

theorem infosOf_push_infoB (rs : Array (Report P)) (i : Info) : infosOfB rs <+: infosOfB (rs.push (.info i)) := by
  unfold infosOfB; rw [Array.toList_push]; exact pairsAux_snoc_info i rs.toList none

theorem reportSent_agnB (p : P) : AgnB (report (.sent p) : M (SS P O) Unit) :=
  ⟨fun _ _ => rfl, fun _ => rfl, fun s => infosOf_push_sentB s.reports p⟩

theorem panic_agnB {α : Type} : AgnB (M.panic : M (SS P O) α) := ⟨fun _ _ => rfl, fun _ => rfl, fun _ => rfl⟩
theorem outOfFuel_agnB {α : Type} : AgnB (M.outOfFuel : M (SS P O) α) := ⟨fun _ _ => rfl, fun _ => rfl, fun _ => rfl⟩

/-- the reset at the start of an iteration -/
theorem reset_agnB : AgnB (M.modify fun s : SS P O => { s with nodes := 0, cur := Array.replicate arrSize none }) :=
  ⟨fun _ _ => rfl, fun _ => rfl, fun _ => rfl⟩

/-! ### the clock and the ordering oracle -/

theorem SimB.queries {s1 s2 : SS P O} (h : SimB k e2 s1 s2) : s1.queries = s2.queries := by
  have : (setEB none s1).queries = (setEB none s2).queries := by rw [h.eq]
  exact this

theorem SimB.ord {s1 s2 : SS P O} (h : SimB k e2 s1 s2) : s1.ord = s2.ord := by
  have : (setEB none s1).ord = (setEB none s2).ord := by rw [h.eq]
  exact this

theorem SimB.not_expired {s1 s2 : SS P O} (h : SimB k e2 s1 s2) (hl : LaterB k e2) :
    s1.expired = false ∧ s2.expired = false := by
  have hq := h.queries
  have hle := h.le
  unfold SS.expired
  rw [h.e1, h.e2]
  constructor
  · simp only [decide_eq_false_iff_not]; omega
  · cases e2 with
    | none => rfl
    | some k' => simp only [LaterB] at hl; simp only [decide_eq_false_iff_not]; omega

/-- the answer of the clock -/
def clockAnsB (e : Option Nat) (q : Nat) : Bool :=
  match e with
  | some k => decide (k ≤ q)
  | none => false

theorem tick_defB (s : SS P O) : tick s = .ok (clockAnsB s.expiry s.queries) { s with queries := s.queries + 1 } := rfl

theorem clockAns_laterB (hl : LaterB k e2) (q : Nat) (hq : q < k) : clockAnsB e2 q = false := by
  cases e2 with
  | none => rfl
  | some k' => simp only [LaterB] at hl; simp only [clockAnsB, decide_eq_false_iff_not]; omega

theorem SimB.upd {s1 s2 : SS P O} (hsim : SimB k e2 s1 s2) (f : SS P O → SS P O)
    (hx : ∀ s, (f s).expiry = s.expiry) (hc : ∀ s, setEB none (f s) = f (setEB none s))
    (hq : (f s1).queries ≤ k) : SimB k e2 (f s1) (f s2) :=
  ⟨by rw [hx]; exact hsim.e1, by rw [hx]; exact hsim.e2, hq, by rw [hc, hc, hsim.eq]⟩

theorem tick_lkB (hl : LaterB k e2) : LkB k e2 (tick : M (SS P O) Bool) := by
  refine ⟨?_, fun s => List.prefix_refl _, ?_⟩
  · intro s hs
    refine ⟨rfl, ?_⟩
    show SS.expired { s with queries := s.queries + 1 } = true
    unfold SS.expired at hs ⊢
    cases he : s.expiry with
    | none => rw [he] at hs; cases hs
    | some kk =>
      rw [he] at hs
      simp only [decide_eq_true_eq] at hs ⊢
      omega
  · intro s1 s2 hsim
    have hq := hsim.queries
    have hle := hsim.le
    rw [tick_defB, tick_defB]
    by_cases hlt : s1.queries < k
    · left
      have b1 : clockAnsB s1.expiry s1.queries = false := by
        rw [hsim.e1]; simp only [clockAnsB, decide_eq_false_iff_not]; omega
      have b2 : clockAnsB s2.expiry s2.queries = false := by
        rw [hsim.e2]; exact clockAns_laterB hl _ (by omega)
      rw [b1, b2]
      exact ⟨rfl, hsim.upd (fun s => { s with queries := s.queries + 1 }) (fun _ => rfl) (fun _ => rfl)
        (by show s1.queries + 1 ≤ k; omega)⟩
    · right
      refine ⟨?_, ?_⟩
      · show SS.expired { s1 with queries := s1.queries + 1 } = true
        unfold SS.expired
        show (match s1.expiry with | some k => decide (k < s1.queries + 1) | none => false) = true
        rw [hsim.e1]
        simp only [decide_eq_true_eq]; omega
      · show SS.pairs { s1 with queries := s1.queries + 1 } <+: SS.pairs { s2 with queries := s2.queries + 1 }
        have : SS.pairs { s1 with queries := s1.queries + 1 } = s1.pairs := rfl
        rw [this, hsim.pairs]
        exact List.prefix_refl _

theorem order_lkB (hl : LaterB k e2) (ord : Oracle P O) (site : Char) (l : List P) :
    LkB k e2 (order ord site l) := by
  refine ⟨fun s hs => ⟨rfl, hs⟩, fun s => List.prefix_refl _, ?_⟩
  intro s1 s2 hsim
  left
  obtain ⟨x1, x2⟩ := hsim.not_expired hl
  have o1 : order ord site l s1 = .ok (ord s1.ord false site l).1 { s1 with ord := (ord s1.ord false site l).2 } := by
    unfold order; rw [x1]
  have o2 : order ord site l s2 = .ok (ord s1.ord false site l).1 { s2 with ord := (ord s1.ord false site l).2 } := by
    unfold order; rw [x2, hsim.ord]
  rw [o1, o2]
  exact ⟨rfl, hsim.upd (fun s => { s with ord := (ord s1.ord false site l).2 }) (fun _ => rfl) (fun _ => rfl) hsim.le⟩

/-! ### the accepting block of the root loop -/

/-- only `mono` and `lock`: a computation that may report an improvement (used under a fresh clock test) -/
structure WLkB (k : Nat) (e2 : Option Nat) {α : Type} (m : M (SS P O) α) : Prop where
  mono : ∀ s, s.pairs <+: (m s).stB.pairs
  lock : ∀ s1 s2, SimB k e2 s1 s2 → OutB k e2 (m s1) (m s2)

theorem LkB.toW {α : Type} {m : M (SS P O) α} (h : LkB k e2 m) : WLkB k e2 m := ⟨h.mono, h.lock⟩

/-- a clock-agnostic step (which may append reports) followed by a `WLkB` continuation -/
theorem WLkB.bind_comm {α β : Type} {m : M (SS P O) α} {f : α → M (SS P O) β}
    (hc : ∀ s x, m (setEB x s) = (m s).mapStB (setEB x)) (hq : ∀ s, (m s).stB.queries = s.queries)
    (hm : ∀ s, s.pairs <+: (m s).stB.pairs) (h2 : ∀ a, WLkB k e2 (f a)) : WLkB k e2 (m >>= f) := by
  refine ⟨?_, ?_⟩
  · intro s
    have q := hm s
    cases hms : m s with
    | ok a s' => rw [bind_of_ok hms]; rw [hms] at q; exact q.trans ((h2 a).mono s')
    | panic s' => rw [bind_of_panic hms]; rw [hms] at q; exact q
    | fuel s' => rw [bind_of_fuel hms]; rw [hms] at q; exact q
  · intro s1 s2 hsim
    have hs := sync_of_commB hc hq s1 s2 hsim
    cases hm1 : m s1 with
    | ok a s1' =>
      cases hm2 : m s2 with
      | ok b s2' =>
        rw [hm1, hm2] at hs
        obtain ⟨rfl, hs⟩ := hs
        rw [bind_of_ok hm1, bind_of_ok hm2]
        exact (h2 a).lock s1' s2' hs
      | panic s2' => rw [hm1, hm2] at hs; exact absurd hs id
      | fuel s2' => rw [hm1, hm2] at hs; exact absurd hs id
    | panic s1' =>
      cases hm2 : m s2 with
      | ok b s2' => rw [hm1, hm2] at hs; exact absurd hs id
      | panic s2' => rw [hm1, hm2] at hs; rw [bind_of_panic hm1, bind_of_panic hm2]; exact Or.inl hs
      | fuel s2' => rw [hm1, hm2] at hs; exact absurd hs id
    | fuel s1' =>
      cases hm2 : m s2 with
      | ok b s2' => rw [hm1, hm2] at hs; exact absurd hs id
      | panic s2' => rw [hm1, hm2] at hs; exact absurd hs id
      | fuel s2' => rw [hm1, hm2] at hs; rw [bind_of_fuel hm1, bind_of_fuel hm2]; exact Or.inl hs

theorem sendInfo_infosB (d : Nat) (e : Int) (s : SS P O) :
    s.pairs <+: (sendInfo d e s).stB.pairs :=
  infosOf_push_infoB s.reports _

/-- the block `report (sent m); setPV; sendInfo d e; rest` -/
theorem acceptBlock_wlkB {α : Type} (mv : P) (d : Nat) (e : Int) (rest : M (SS P O) α) (hr : LkB k e2 rest) :
    WLkB k e2 (do report (.sent mv); setPV; sendInfo d e; rest) := by
  apply WLkB.bind_comm (fun _ _ => rfl) (fun _ => rfl)
    (fun s => by rw [(reportSent_agnB mv).inf s]; exact List.prefix_refl _)
  intro _
  apply WLkB.bind_comm (fun _ _ => rfl) (fun _ => rfl) (fun s => List.prefix_refl _)
  intro _
  apply WLkB.bind_comm (fun _ _ => rfl) (fun _ => rfl)
    (fun s => sendInfo_infosB _ _ s)
  intro _
  exact hr.toW

/-- an acceptance guarded by a fresh consultation of the clock: once expired, nothing is accepted -/
theorem guard_lkB {α : Type} (hl : LaterB k e2) (c : Prop) [Decidable c] (B C : M (SS P O) α)
    (hB : WLkB k e2 B) (hC : LkB k e2 C) :
    LkB k e2 (if c then (tick >>= fun t => (Pure.pure (!t) : M (SS P O) Bool) >>= fun accept => if accept = true then B else C)
      else ((Pure.pure false : M (SS P O) Bool) >>= fun accept => if accept = true then B else C)) := by
  by_cases hc : c
  · rw [if_pos hc]
    have e : ∀ s : SS P O,
        (tick >>= fun t => (Pure.pure (!t) : M (SS P O) Bool) >>= fun accept => if accept = true then B else C) s =
          (if (!(clockAnsB s.expiry s.queries)) = true then B else C) { s with queries := s.queries + 1 } := by
      intro s
      rw [bind_of_ok (tick_defB s)]
      rfl
    refine ⟨?_, ?_, ?_⟩
    · intro s hs
      have ht : clockAnsB s.expiry s.queries = true := by
        unfold SS.expired at hs
        cases he : s.expiry with
        | none => rw [he] at hs; cases hs
        | some kk => rw [he] at hs; simp only [decide_eq_true_eq] at hs; simp only [clockAnsB, decide_eq_true_eq]; omega
      have hx := ((tick_lkB (P := P) (O := O) hl).quiet s hs).2
      rw [tick_defB] at hx
      rw [e, ht]
      simp only [Bool.not_true, Bool.false_eq_true, if_false]
      exact hC.quiet _ hx
    · intro s
      rw [e]
      have h0 : s.pairs = SS.pairs { s with queries := s.queries + 1 } := rfl
      rw [h0]
      split
      · exact hB.mono _
      · exact hC.mono _
    · intro s1 s2 hsim
      rw [e s1, e s2]
      have hq := hsim.queries
      have hle := hsim.le
      by_cases hlt : s1.queries < k
      · have b1 : clockAnsB s1.expiry s1.queries = false := by
          rw [hsim.e1]; simp only [clockAnsB, decide_eq_false_iff_not]; omega
        have b2 : clockAnsB s2.expiry s2.queries = false := by
          rw [hsim.e2]; exact clockAns_laterB hl _ (by omega)
        rw [b1, b2]
        simp only [Bool.not_false, if_true]
        exact hB.lock _ _ (hsim.upd (fun s => { s with queries := s.queries + 1 }) (fun _ => rfl) (fun _ => rfl)
          (by show s1.queries + 1 ≤ k; omega))
      · right
        have b1 : clockAnsB s1.expiry s1.queries = true := by
          rw [hsim.e1]; simp only [clockAnsB, decide_eq_true_eq]; omega
        rw [b1]
        simp only [Bool.not_true, Bool.false_eq_true, if_false]
        have hx : SS.expired { s1 with queries := s1.queries + 1 } = true := by
          unfold SS.expired
          show (match s1.expiry with | some k => decide (k < s1.queries + 1) | none => false) = true
          rw [hsim.e1]; simp only [decide_eq_true_eq]; omega
        obtain ⟨q1, q2⟩ := hC.quiet _ hx
        refine ⟨q2, ?_⟩
        rw [q1]
        have h1 : SS.pairs { s1 with queries := s1.queries + 1 } = s2.pairs := hsim.pairs
        have h2 : s2.pairs = SS.pairs { s2 with queries := s2.queries + 1 } := rfl
        rw [h1, h2]
        split
        · exact hB.mono _
        · exact hC.mono _
  · rw [if_neg hc]
    exact hC

end Walleye
