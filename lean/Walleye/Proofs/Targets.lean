/- Every pseudo-legal target produced by `get_moves` is a non-boundary square (empty or enemy
   piece); with the sentinel ring in place it is therefore on the 8x8 board. -/
import Walleye.Proofs.Fields
namespace Walleye

/-- every off-board cell is a sentinel (equivalently: a non-boundary cell is on the board) -/
def RingOK (b : Board) : Prop := ∀ r c, b.get r c ≠ .boundary → OnBoard ⟨r, c⟩

theorem getI_ne_boundary (b : Board) (r c : Int) (h : b.getI r c ≠ .boundary) :
    0 ≤ r ∧ 0 ≤ c ∧ b.getI r c = b.get r.toNat c.toNat := by
  by_cases hc : 0 ≤ r ∧ 0 ≤ c
  · refine ⟨hc.1, hc.2, ?_⟩
    unfold Board.getI; rw [if_pos hc]
  · exfalso; apply h; unfold Board.getI; rw [if_neg hc]

theorem isEmpty_ne_boundary (s : Square) (h : s.isEmpty = true) : s ≠ .boundary := by
  cases s <;> simp_all [Square.isEmpty]

theorem isColor_ne_boundary (s : Square) (c : Color) (h : s.isColor c = true) : s ≠ .boundary := by
  cases s <;> simp_all [Square.isColor]

theorem isEmptyOrColor_ne_boundary (s : Square) (c : Color) (h : s.isEmptyOrColor c = true) : s ≠ .boundary := by
  cases s <;> simp_all [Square.isEmptyOrColor]

/-- a target square: not a sentinel -/
def Target (b : Board) (pt : Point) : Prop := b.get pt.row pt.col ≠ .boundary

theorem walk_spec (b : Board) (dr dc : Int) (fuel : Nat) (r c : Int) (acc : List Point)
    (hacc : ∀ pt ∈ acc, Target b pt) :
    (∀ pt ∈ (walk b dr dc fuel r c acc).1, Target b pt) ∧
    ((walk b dr dc fuel r c acc).2.2 ≠ .boundary →
      (walk b dr dc fuel r c acc).2.2 = b.get (walk b dr dc fuel r c acc).2.1.row (walk b dr dc fuel r c acc).2.1.col) := by
  induction fuel generalizing r c acc with
  | zero => simp only [walk]; exact ⟨hacc, fun h => absurd rfl h⟩
  | succ n ih =>
    simp only [walk]
    by_cases he : (b.getI r c).isEmpty = true
    · simp only [he, if_true]
      apply ih
      intro pt hpt
      cases List.mem_append.mp hpt with
      | inl h => exact hacc pt h
      | inr h =>
        simp only [List.mem_singleton] at h
        subst h
        obtain ⟨_, _, e⟩ := getI_ne_boundary b r c (isEmpty_ne_boundary _ he)
        unfold Target ptI
        rw [← e]; exact isEmpty_ne_boundary _ he
    · simp only [he]
      refine ⟨hacc, fun hne => ?_⟩
      obtain ⟨_, _, e⟩ := getI_ne_boundary b r c hne
      exact e

theorem slideDir_target (piece : Piece) (row col : Nat) (b : Board) (mode : Mode) (d : Int × Int) :
    ∀ pt ∈ slideDir piece row col b mode d, Target b pt := by
  intro pt hpt
  unfold slideDir at hpt
  have hw := walk_spec b d.1 d.2 walkFuel ((row : Int) + d.1) ((col : Int) + d.2) [] (by simp)
  generalize walk b d.1 d.2 walkFuel ((row : Int) + d.1) ((col : Int) + d.2) [] = w at *
  obtain ⟨es, hit, sq⟩ := w
  simp only at hpt hw
  cases List.mem_append.mp hpt with
  | inl h =>
    split at h
    · exact hw.1 pt h
    · cases h
  | inr h =>
    split at h
    · rename_i hc
      simp only [List.mem_singleton] at h
      subst h
      have hne := isColor_ne_boundary _ _ hc
      unfold Target; rw [← hw.2 hne]; exact hne
    · cases h

theorem knightMoves_target (piece : Piece) (row col : Nat) (b : Board) (mode : Mode) :
    ∀ pt ∈ knightMoves piece row col b mode, Target b pt := by
  intro pt hpt
  unfold knightMoves at hpt
  simp only [List.mem_filterMap] at hpt
  obtain ⟨rc, _, hrc⟩ := hpt
  by_cases hs : (b.getI ((row : Int) + rc.1) ((col : Int) + rc.2)).isEmptyOrColor piece.color.opp = true
  · obtain ⟨_, _, e⟩ := getI_ne_boundary b _ _ (isEmptyOrColor_ne_boundary _ _ hs)
    simp only [hs, if_true] at hrc
    have hp : pt = ptI ((row : Int) + rc.1) ((col : Int) + rc.2) := by
      split at hrc
      · split at hrc
        · exact (Option.some.inj hrc).symm
        · cases hrc
      · exact (Option.some.inj hrc).symm
    subst hp
    unfold Target ptI
    rw [← e]; exact isEmptyOrColor_ne_boundary _ _ hs
  · simp only [hs] at hrc; cases hrc

theorem kingMoves_target (piece : Piece) (row col : Nat) (b : Board) (mode : Mode) :
    ∀ pt ∈ kingMoves piece row col b mode, Target b pt := by
  intro pt hpt
  unfold kingMoves at hpt
  simp only [List.mem_flatMap, List.mem_filterMap] at hpt
  obtain ⟨i, _, j, _, hij⟩ := hpt
  by_cases hs : (b.get (row + i - 1) (col + j - 1)).isEmptyOrColor piece.color.opp = true
  · simp only [hs, if_true] at hij
    have hp : pt = ⟨row + i - 1, col + j - 1⟩ := by
      split at hij
      · split at hij
        · exact (Option.some.inj hij).symm
        · cases hij
      · exact (Option.some.inj hij).symm
    subst hp
    exact isEmptyOrColor_ne_boundary _ _ hs
  · simp only [hs] at hij; cases hij

theorem pawnMoves_target (piece : Piece) (row col : Nat) (b : Board) (mode : Mode) :
    ∀ pt ∈ pawnMoves piece row col b mode, Target b pt := by
  intro pt hpt
  unfold pawnMoves at hpt
  cases hc : piece.color <;> simp only [hc] at hpt
  all_goals
    simp only [List.mem_append] at hpt
    rcases hpt with (h | h) | h
    · split at h
      · rename_i hcol; simp only [List.mem_singleton] at h; subst h; exact isColor_ne_boundary _ _ hcol
      · cases h
    · split at h
      · rename_i hcol; simp only [List.mem_singleton] at h; subst h; exact isColor_ne_boundary _ _ hcol
      · cases h
    · split at h
      · rename_i hpush
        cases List.mem_cons.mp h with
        | inl h1 => subst h1; exact isEmpty_ne_boundary _ hpush.2
        | inr h2 =>
          split at h2
          · rename_i hd; simp only [List.mem_singleton] at h2; subst h2; exact isEmpty_ne_boundary _ hd.2
          · cases h2
      · cases h

theorem getMoves_target (piece : Piece) (row col : Nat) (b : Board) (mode : Mode) :
    ∀ pt ∈ getMoves piece row col b mode, Target b pt := by
  intro pt hpt
  unfold getMoves at hpt
  cases hk : piece.kind <;> simp only [hk] at hpt
  · exact pawnMoves_target _ _ _ _ _ pt hpt
  · exact knightMoves_target _ _ _ _ _ pt hpt
  · unfold bishopMoves at hpt
    obtain ⟨d, _, hd⟩ := List.mem_flatMap.mp hpt
    exact slideDir_target _ _ _ _ _ d pt hd
  · unfold rookMoves at hpt
    obtain ⟨d, _, hd⟩ := List.mem_flatMap.mp hpt
    exact slideDir_target _ _ _ _ _ d pt hd
  · unfold queenMoves rookMoves bishopMoves at hpt
    cases List.mem_append.mp hpt with
    | inl h => obtain ⟨d, _, hd⟩ := List.mem_flatMap.mp h; exact slideDir_target _ _ _ _ _ d pt hd
    | inr h => obtain ⟨d, _, hd⟩ := List.mem_flatMap.mp h; exact slideDir_target _ _ _ _ _ d pt hd
  · exact kingMoves_target _ _ _ _ _ pt hpt

/-- with the ring in place every generated target is on the 8x8 board -/
theorem getMoves_onBoard (piece : Piece) (row col : Nat) (b : Board) (mode : Mode) (hr : RingOK b) :
    ∀ pt ∈ getMoves piece row col b mode, OnBoard pt := fun pt hpt =>
  hr pt.row pt.col (getMoves_target piece row col b mode pt hpt)

end Walleye
