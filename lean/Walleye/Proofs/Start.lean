/-
  The start position as loaded by the model's FEN reader with the real hasher constants — the
  non-vacuity witness shared by the property files.
-/
import Walleye.Model.Fen
import Walleye.Proofs.Targets
namespace Walleye

def startPosition : Pos :=
  match fromFen Hasher.real Gen.defaultFen.toList with
  | .ok p => p
  | _ => default

theorem start_ring : RingOK startPosition.board := by
  intro r c hne
  by_cases hb : r < 12 ∧ c < 12
  · have key : ∀ r : Fin 12, ∀ c : Fin 12, startPosition.board.get r.val c.val ≠ .boundary →
        (2 ≤ r.val ∧ r.val ≤ 9 ∧ 2 ≤ c.val ∧ c.val ≤ 9) := by decide +kernel
    exact key ⟨r, hb.1⟩ ⟨c, hb.2⟩ hne
  · exfalso; apply hne; unfold Board.get; rw [dif_neg hb]

end Walleye
