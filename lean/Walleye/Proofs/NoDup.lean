/-
  C01 / C13, "no move appears twice", part 2: the successors of one generation carry pairwise
  different moves.  Successors of different origin squares differ in the origin; of one origin and
  different targets in the target; the (at most four) successors of one target in the promotion
  piece; an en passant successor differs from every ordinary one (the SPEC classifies the moves
  differently), and castling successors from all others and from each other.
-/
import Walleye.Proofs.NoDupGeo
import Walleye.Proofs.CapsExact
namespace Walleye

variable (h : Hasher)

theorem getMoves_nodup (piece : Piece) (row col : Nat) (b : Board) (mode : Mode)
    (hr : RingOK b) (ht : OnBoard ⟨row, col⟩) (hon : ∀ pt ∈ getMoves piece row col b mode, OnBoard pt) :
    (getMoves piece row col b mode).Nodup := by
  have hs := (getMoves_sublist piece row col b mode hr ht).filter onB
  have e : (getMoves piece row col b mode).filter onB = getMoves piece row col b mode := by
    rw [List.filter_eq_self]
    intro pt hpt
    exact (onB_iff pt).mpr (hon pt hpt)
  rw [e] at hs
  exact hs.nodup (geo_nodup piece row col ht)

theorem nodup_map_inj {α β} (l : List α) (f : α → β) (hf : ∀ a b, f a = f b → a = b) (hl : l.Nodup) :
    (l.map f).Nodup := by
  unfold List.Nodup at *
  rw [List.pairwise_map]
  exact hl.imp (fun hne e => hne (hf _ _ e))

theorem specOf_inj (a b : Point) (ha : OnBoard a) (hb : OnBoard b) (e : specOf a = specOf b) : a = b := by
  rw [← toPt_specOf a ha, ← toPt_specOf b hb, e]

/-- the successors of one target differ in the promotion piece -/
theorem st4_nodup (piece : Piece) (sq mov : Point) (nb : Pos) (hl : nb.lastMove = some (sq, mov)) :
    ((st4 h piece sq mov nb).map moveOf).Nodup := by
  have promo_case : ∀ c, ((promotePawn h nb c sq mov).map moveOf).Nodup := by
    intro c
    unfold promotePawn
    rw [List.map_map]
    have : (moveOf ∘ fun kind =>
        let nb' := nb.unsetEp h
        let pp : Piece := ⟨c, kind⟩
        ({ nb' with
          board := nb'.board.set mov.row mov.col (.full pp)
          lastMove := some (sq, mov)
          promo := some pp
          oh := if kind = .queen then Gen.queenPromotionScore else Gen.underPromotionScore
          key := nb'.key ^^^ (h.piece pp mov ^^^ h.piece ⟨c, .pawn⟩ mov) } : Pos)) =
        fun kind => (⟨specOf sq, specOf mov, some kind⟩ : Spec.Move) := by
      funext kind; rfl
    rw [this]
    apply nodup_map_inj
    · intro a b e; injection e with _ _ e; injection e
    · decide
  unfold st4
  split
  · exact promo_case _
  · split
    · exact promo_case _
    · simp

theorem succsForTarget_nodup (piece : Piece) (p : Pos) (sq mov : Point) :
    ((succsForTarget h piece p sq mov).map moveOf).Nodup := by
  rw [succsForTarget_eq]
  split
  · simp
  · apply st4_nodup
    rw [st3_lastMove, st2_lastMove, st1_lastMove]

/-- an ordinary successor: origin, target and the SPEC's classification of its move -/
theorem normal_class (p : Pos) (wf : WFp p) (o : Spec.Sq) (ho : InB o) (pc : Piece)
    (hpc : p.board.get (toPt o).row (toPt o).col = .full pc) (hcol : pc.color = p.toMove) (mov : Point)
    (hmov : mov ∈ getMoves pc (toPt o).row (toPt o).col p.board .all) :
    ∀ q ∈ succsForTarget h pc p (toPt o) mov,
      (moveOf q).src = o ∧ (moveOf q).dst = specOf mov ∧
      Spec.isEnPassant (abs p) (moveOf q) = false ∧ Spec.isCastle (abs p) (moveOf q) = false := by
  intro q hq
  obtain ⟨h1, h2, _, _⟩ := succsForTarget_sound h p wf o ho pc hpc hcol mov hmov q hq
  obtain ⟨_, hrule⟩ := (getMoves_spec p wf.ring wf.inner o ho pc hpc mov).mp hmov
  have hsrc : (abs p).at o = some pc := by rw [abs_at p o ho, hpc]; rfl
  have e : moveOf q = ⟨o, specOf mov, (moveOf q).promo⟩ := by
    rw [← h1, ← h2]
  refine ⟨h1, h2, ?_, ?_⟩
  · rw [e]; exact not_ep (abs p) o (specOf mov) pc _ hsrc hrule
  · rw [e]; exact not_castle (abs p) o (specOf mov) pc _ hsrc hrule

theorem ep_not_castle (P : Spec.Position) (m : Spec.Move) (he : Spec.isEnPassant P m = true) :
    Spec.isCastle P m = false := by
  unfold Spec.isEnPassant at he
  unfold Spec.isCastle
  simp only [Bool.and_eq_true, beq_iff_eq] at he
  rw [he.1.1]
  have : ((some (⟨P.side, .pawn⟩ : Piece)) == some (⟨P.side, .king⟩ : Piece)) = false := by
    cases P.side <;> decide
  rw [this]; rfl

theorem epSuccs_length (piece : Piece) (p : Pos) (sq : Point) : (epSuccs h piece p sq).length ≤ 1 := by
  rw [epSuccs_eq]
  split
  · split
    · simp
    · split <;> simp
  · simp

theorem nodup_of_length_le_one {α} (l : List α) (hl : l.length ≤ 1) : l.Nodup := by
  cases l with
  | nil => simp
  | cons a rest =>
    cases rest with
    | nil => simp
    | cons b r => simp at hl

theorem targets_all (pc : Piece) (row col : Nat) (b : Board) (mode : Mode) :
    ∀ mov ∈ getMoves pc row col b mode, mov ∈ getMoves pc row col b .all := by
  cases mode with
  | all => intro mov hm; exact hm
  | caps => exact getMoves_caps_subset pc row col b

/-- the successors of one piece carry pairwise different moves, all from its square, none a castling -/
theorem forPiece_nodup (p : Pos) (wf : WFp p) (o : Spec.Sq) (ho : InB o) (pc : Piece)
    (hpc : p.board.get (toPt o).row (toPt o).col = .full pc) (hcol : pc.color = p.toMove) (mode : Mode) :
    ((generateMovesForPiece h pc p (toPt o) mode).map moveOf).Nodup ∧
    ∀ q ∈ generateMovesForPiece h pc p (toPt o) mode,
      (moveOf q).src = o ∧ Spec.isCastle (abs p) (moveOf q) = false := by
  have hall := targets_all pc (toPt o).row (toPt o).col p.board mode
  have hon : ∀ mov ∈ getMoves pc (toPt o).row (toPt o).col p.board mode, OnBoard mov := fun mov hm =>
    ((getMoves_spec p wf.ring wf.inner o ho pc hpc mov).mp (hall mov hm)).1
  have hnd := getMoves_nodup pc (toPt o).row (toPt o).col p.board mode wf.ring (toPt_onBoard o ho) hon
  have hnormal : ((((getMoves pc (toPt o).row (toPt o).col p.board mode).flatMap
      (succsForTarget h pc p (toPt o)))).map moveOf).Nodup := by
    apply nodup_flatMap_map _ _ _ hnd
    · intro mov _; exact succsForTarget_nodup h pc p (toPt o) mov
    · intro mov hm mov' hm' q hq q' hq' e
      have c1 := normal_class h p wf o ho pc hpc hcol mov (hall mov hm) q hq
      have c2 := normal_class h p wf o ho pc hpc hcol mov' (hall mov' hm') q' hq'
      apply specOf_inj mov mov' (hon mov hm) (hon mov' hm')
      rw [← c1.2.1, ← c2.2.1, e]
  unfold generateMovesForPiece
  constructor
  · rw [List.map_append, List.nodup_append]
    refine ⟨hnormal, nodup_of_length_le_one _ (by rw [List.length_map]; exact epSuccs_length h pc p (toPt o)), ?_⟩
    intro k hk k' hk' e
    obtain ⟨q, hq, rfl⟩ := List.mem_map.mp hk
    obtain ⟨q', hq', rfl⟩ := List.mem_map.mp hk'
    obtain ⟨mov, hm, hqm⟩ := List.mem_flatMap.mp hq
    have c1 := normal_class h p wf o ho pc hpc hcol mov (hall mov hm) q hqm
    have c2 := epSuccs_sound h p wf o ho pc hpc hcol q' hq'
    rw [e, c2.2.1] at c1
    exact absurd c1.2.2.1 (by simp)
  · intro q hq
    rcases List.mem_append.mp hq with hq | hq
    · obtain ⟨mov, hm, hqm⟩ := List.mem_flatMap.mp hq
      have c1 := normal_class h p wf o ho pc hpc hcol mov (hall mov hm) q hqm
      exact ⟨c1.1, c1.2.2.2⟩
    · have c2 := epSuccs_sound h p wf o ho pc hpc hcol q hq
      exact ⟨c2.1, ep_not_castle _ _ c2.2.1⟩

/-- the successors generated for one square of the double loop -/
def perSquare (p : Pos) (mode : Mode) (pt : Point) : List Pos :=
  match p.board.get pt.row pt.col with
  | .full piece => if piece.color = p.toMove then generateMovesForPiece h piece p pt mode else []
  | _ => []

theorem generateMoves_perSquare (p : Pos) (mode : Mode) :
    generateMoves h p mode =
      boardCoords.flatMap (perSquare h p mode) ++ (if mode = .all then generateCastlingMoves h p else []) := rfl

theorem perSquare_facts (p : Pos) (wf : WFp p) (mode : Mode) (pt : Point) (hpt : pt ∈ boardCoords) :
    ((perSquare h p mode pt).map moveOf).Nodup ∧
    ∀ q ∈ perSquare h p mode pt, (moveOf q).src = specOf pt ∧ Spec.isCastle (abs p) (moveOf q) = false := by
  have hon := (mem_boardCoords pt).mp hpt
  obtain ⟨o, ho, rfl⟩ : ∃ o, InB o ∧ pt = toPt o := ⟨specOf pt, specOf_inB pt hon, (toPt_specOf pt hon).symm⟩
  rw [specOf_toPt o ho]
  unfold perSquare
  cases hsq : p.board.get (toPt o).row (toPt o).col with
  | empty => simp
  | boundary => simp
  | full pc =>
    simp only
    split
    · rename_i hcol
      exact forPiece_nodup h p wf o ho pc hsq hcol mode
    · simp

theorem squares_nodup (p : Pos) (wf : WFp p) (mode : Mode) :
    (((boardCoords.flatMap (perSquare h p mode))).map moveOf).Nodup := by
  apply nodup_flatMap_map _ _ _ boardCoords_nodup
  · intro pt hpt; exact (perSquare_facts h p wf mode pt hpt).1
  · intro pt hpt pt' hpt' q hq q' hq' e
    have c1 := (perSquare_facts h p wf mode pt hpt).2 q hq
    have c2 := (perSquare_facts h p wf mode pt' hpt').2 q' hq'
    apply specOf_inj pt pt' ((mem_boardCoords pt).mp hpt) ((mem_boardCoords pt').mp hpt')
    rw [← c1.1, ← c2.1, e]

theorem canCastle_wks_right (p : Pos) (hc : canCastle p .wks = true) : p.wks = true := by
  unfold canCastle at hc; simp only [Bool.and_eq_true] at hc; exact hc.1.1.1.1.1
theorem canCastle_wqs_right (p : Pos) (hc : canCastle p .wqs = true) : p.wqs = true := by
  unfold canCastle at hc; simp only [Bool.and_eq_true] at hc; exact hc.1.1.1.1.1.1
theorem canCastle_bks_right (p : Pos) (hc : canCastle p .bks = true) : p.bks = true := by
  unfold canCastle at hc; simp only [Bool.and_eq_true] at hc; exact hc.1.1.1.1.1
theorem canCastle_bqs_right (p : Pos) (hc : canCastle p .bqs = true) : p.bqs = true := by
  unfold canCastle at hc; simp only [Bool.and_eq_true] at hc; exact hc.1.1.1.1.1.1

/-- the castling successors carry different moves, each classified as castling by the SPEC -/
theorem castles_facts (p : Pos) (wf : WFp p) :
    ((generateCastlingMoves h p).map moveOf).Nodup ∧
    ∀ q ∈ generateCastlingMoves h p, Spec.isCastle (abs p) (moveOf q) = true := by
  unfold generateCastlingMoves
  cases hside : p.toMove with
  | white =>
    have nb : ¬ (Color.white = Color.black) := by decide
    simp only [true_and, nb, false_and, if_false, List.append_nil]
    by_cases hk : canCastle p .wks = true <;> by_cases hq : canCastle p .wqs = true <;>
      simp only [hk, hq, if_true, if_false, List.nil_append, List.append_nil, List.singleton_append, List.map_cons,
        List.map_nil, List.mem_cons, List.mem_nil_iff, or_false, Bool.false_eq_true]
    · have m1 := (castle_wks_sound h p wf hside hk).1
      have m2 := (castle_wqs_sound h p wf hside hq).1
      have i1 := (castle_wks_abs h p wf.lp wf.kings hside (canCastle_wks_right p hk)).1
      have i2 := (castle_wqs_abs h p wf.lp wf.kings hside (canCastle_wqs_right p hq)).1
      refine ⟨?_, ?_⟩
      · rw [m1, m2]; decide
      · rintro q (rfl | rfl)
        · rw [m1]; exact i1
        · rw [m2]; exact i2
    · have m1 := (castle_wks_sound h p wf hside hk).1
      have i1 := (castle_wks_abs h p wf.lp wf.kings hside (canCastle_wks_right p hk)).1
      exact ⟨by simp, by rintro q rfl; rw [m1]; exact i1⟩
    · have m2 := (castle_wqs_sound h p wf hside hq).1
      have i2 := (castle_wqs_abs h p wf.lp wf.kings hside (canCastle_wqs_right p hq)).1
      exact ⟨by simp, by rintro q rfl; rw [m2]; exact i2⟩
    · exact ⟨by simp, by intro q hq'; cases hq'⟩
  | black =>
    have nb : ¬ (Color.black = Color.white) := by decide
    simp only [true_and, nb, false_and, if_false, List.nil_append]
    by_cases hk : canCastle p .bks = true <;> by_cases hq : canCastle p .bqs = true <;>
      simp only [hk, hq, if_true, if_false, List.nil_append, List.append_nil, List.singleton_append, List.map_cons,
        List.map_nil, List.mem_cons, List.mem_nil_iff, or_false, Bool.false_eq_true]
    · have m1 := (castle_bks_sound h p wf hside hk).1
      have m2 := (castle_bqs_sound h p wf hside hq).1
      have i1 := (castle_bks_abs h p wf.lp wf.kings hside (canCastle_bks_right p hk)).1
      have i2 := (castle_bqs_abs h p wf.lp wf.kings hside (canCastle_bqs_right p hq)).1
      refine ⟨?_, ?_⟩
      · rw [m1, m2]; decide
      · rintro q (rfl | rfl)
        · rw [m1]; exact i1
        · rw [m2]; exact i2
    · have m1 := (castle_bks_sound h p wf hside hk).1
      have i1 := (castle_bks_abs h p wf.lp wf.kings hside (canCastle_bks_right p hk)).1
      exact ⟨by simp, by rintro q rfl; rw [m1]; exact i1⟩
    · have m2 := (castle_bqs_sound h p wf hside hq).1
      have i2 := (castle_bqs_abs h p wf.lp wf.kings hside (canCastle_bqs_right p hq)).1
      exact ⟨by simp, by rintro q rfl; rw [m2]; exact i2⟩
    · exact ⟨by simp, by intro q hq'; cases hq'⟩

/-- **C01 / C13, no move appears twice**: in either generation mode the successors carry pairwise
    different moves (from-square, to-square, promotion piece) -/
theorem generateMoves_nodup (p : Pos) (wf : WFp p) (mode : Mode) :
    ((generateMoves h p mode).map moveOf).Nodup := by
  rw [generateMoves_perSquare, List.map_append, List.nodup_append]
  refine ⟨squares_nodup h p wf mode, ?_, ?_⟩
  · split
    · exact (castles_facts h p wf).1
    · simp
  · intro k hk k' hk' e
    obtain ⟨q, hq, rfl⟩ := List.mem_map.mp hk
    obtain ⟨q', hq', rfl⟩ := List.mem_map.mp hk'
    obtain ⟨pt, hpt, hqp⟩ := List.mem_flatMap.mp hq
    have c1 := ((perSquare_facts h p wf mode pt hpt).2 q hqp).2
    split at hq'
    · have c2 := (castles_facts h p wf).2 q' hq'
      rw [e, c2] at c1; cases c1
    · cases hq'

end Walleye
