/-
  `ab_spec`: the engine-shaped search of the model (fail-hard quiescence, mate-distance clamp,
  first move with the full window, the others with a zero window and a re-search, stateful
  PV / killer / current-line bookkeeping, ordering oracle) returns a value related by `Bnd` to
  `Spec.negamax`, for every game, every ordering oracle that permutes, every window, every
  repetition table — whenever the clock never expires, the remaining depth is below the null-move
  threshold (3) and the call finishes normally.
-/
import Walleye.Proofs.Negamax
import Walleye.Proofs.SearchInv
namespace Walleye
open Spec DrawTable

variable {P O : Type}

/-! ### value range of the specification -/

theorem maxNeg_bound (f : P → Int) (l : List P) (acc : Int) (lo hi : Int)
    (hacc : lo ≤ acc ∧ acc ≤ hi) (hf : ∀ m ∈ l, lo ≤ - f m ∧ - f m ≤ hi) :
    lo ≤ maxNeg f l acc ∧ maxNeg f l acc ≤ hi := by
  induction l generalizing acc with
  | nil => simpa [maxNeg] using hacc
  | cons m ms ih =>
    simp only [maxNeg]
    have := hf m (by simp)
    apply ih
    · omega
    · intro x hx; exact hf x (by simp [hx])

theorem maxNeg_max_acc (f : P → Int) (l : List P) (a x : Int) :
    maxNeg f l (max a x) = max a (maxNeg f l x) := by
  induction l generalizing x with
  | nil => simp [maxNeg]
  | cons m ms ih =>
    simp only [maxNeg]
    have : max (max a x) (- f m) = max a (max x (- f m)) := by omega
    rw [this, ih]

variable (g : Game P)

/-- the game facts the theorem needs: a bounded evaluation, and re-tagging a move with an ordering
    score does not change its minimax value -/
structure GameOK (E : Nat) : Prop where
  evalB : ∀ p, -(E : Int) ≤ g.eval p ∧ g.eval p ≤ E
  ohV : ∀ fuel d ply t m x, negamax g fuel d ply t (g.withOh m x) = negamax g fuel d ply t m

theorem qval_bound (E : Nat) (hg : GameOK g E) : ∀ fuel p, -(E : Int) ≤ qval g fuel p ∧ qval g fuel p ≤ E := by
  intro fuel
  induction fuel with
  | zero => intro p; simp only [qval]; exact hg.evalB p
  | succ n ih =>
    intro p
    simp only [qval]
    apply maxNeg_bound _ _ _ _ _ (hg.evalB p)
    intro m _
    have := ih m
    omega

/-- values at `ply` lie in [−(MATE − ply), MATE − ply − 1] as long as the evaluation bound stays
    below the mate band for every ply that can be reached with the fuel at hand -/
theorem negamax_range (E : Nat) (hg : GameOK g E) :
    ∀ (fuel d ply : Nat) (t : DrawTable) (p : P), (E : Int) + ply + fuel < Gen.mateScore →
      -(Gen.mateScore - ply) ≤ negamax g fuel d ply t p ∧ negamax g fuel d ply t p ≤ Gen.mateScore - ply - 1 := by
  intro fuel
  induction fuel with
  | zero =>
    intro d ply t p hb
    simp only [negamax]
    have := hg.evalB p
    omega
  | succ n ih =>
    intro d ply t p hb
    simp only [negamax]
    split
    · simp only [Gen.mateScore] at hb ⊢; omega
    · split
      · have := qval_bound g E hg qFuel p
        omega
      · split
        · split <;> (simp only [Gen.mateScore] at hb ⊢; omega)
        · rename_i m ms _
          have hc : ∀ x, -(Gen.mateScore - ply) ≤ - negamax g n ((if d = 0 then 1 else d) - 1) (ply + 1)
              ((t.add (g.key p)).getD t) x ∧ - negamax g n ((if d = 0 then 1 else d) - 1) (ply + 1)
              ((t.add (g.key p)).getD t) x ≤ Gen.mateScore - ply - 1 := by
            intro x
            have := ih ((if d = 0 then 1 else d) - 1) (ply + 1) ((t.add (g.key p)).getD t) x (by push_cast; omega)
            push_cast at this
            omega
          exact maxNeg_bound _ _ _ _ _ (hc m) (fun x _ => hc x)

/-! ### the table argument only matters through its counts -/

theorem add_congr {t t' : DrawTable} (h : TableEq t t') (k : UInt64) :
    TableEq ((t.add k).getD t) ((t'.add k).getD t') := by
  intro k'
  unfold add
  simp only [h k]
  split
  · simp only [Option.getD_none]; exact h k'
  · simp only [Option.getD_some, count_insert, h k']

theorem negamax_congr : ∀ fuel d ply (t t' : DrawTable) p, TableEq t t' →
    negamax g fuel d ply t p = negamax g fuel d ply t' p := by
  intro fuel
  induction fuel with
  | zero => intro d ply t t' p _; rfl
  | succ n ih =>
    intro d ply t t' p h
    simp only [negamax]
    rw [isThreefold_congr h]
    have hf : negamax g n ((if d = 0 then 1 else d) - 1) (ply + 1) ((t.add (g.key p)).getD t) =
        negamax g n ((if d = 0 then 1 else d) - 1) (ply + 1) ((t'.add (g.key p)).getD t') := by
      funext x; exact ih _ _ _ _ x (add_congr h _)
    rw [hf]

end Walleye

namespace Walleye
open Spec DrawTable

variable {P O : Type}

/-- the states the theorem talks about: the clock never expires, the table has the counts of `t` -/
def St (t : DrawTable) (s : SS P O) : Prop := s.expiry = none ∧ TableEq s.table t

/-- a step that leaves table and clock setting alone -/
def Neutral {α : Type} (m : M (SS P O) α) : Prop :=
  ∀ s a s', m s = .ok a s' → s'.table = s.table ∧ s'.expiry = s.expiry

theorem Neutral.triple {α : Type} {m : M (SS P O) α} (h : Neutral m) (t : DrawTable) :
    Triple (St t) m (fun _ s' => St t s') := by
  refine ⟨?_⟩
  intro s a s' hp he
  obtain ⟨h1, h2⟩ := h s a s' he
  exact ⟨by rw [h2]; exact hp.1, by rw [h1]; exact hp.2⟩

theorem nodeSearched_neutral : Neutral (nodeSearched : M (SS P O) Unit) := by
  intro s a s' he; unfold nodeSearched M.modify at he; injection he with _ h2; subst h2; exact ⟨rfl, rfl⟩
theorem order_neutral (ord : Oracle P O) (c : Char) (l : List P) : Neutral (order ord c l) := by
  intro s a s' he; unfold order at he; injection he with _ h2; subst h2; exact ⟨rfl, rfl⟩
theorem setPV_neutral : Neutral (setPV : M (SS P O) Unit) := by
  intro s a s' he; unfold setPV M.modify at he; injection he with _ h2; subst h2; exact ⟨rfl, rfl⟩
theorem insertCur_neutral (ply : Nat) (m : Option Mv) : Neutral (insertCur ply m : M (SS P O) Unit) := by
  intro s a s' he; unfold insertCur at he; split at he
  · injection he with _ h2; subst h2; exact ⟨rfl, rfl⟩
  · cases he
theorem getPV_neutral (ply : Nat) : Neutral (getPV ply : M (SS P O) (Option Mv)) := by
  intro s a s' he; unfold getPV at he; split at he
  · injection he with _ h2; subst h2; exact ⟨rfl, rfl⟩
  · cases he
theorem getKillers_neutral (ply : Nat) : Neutral (getKillers ply : M (SS P O) (Array (Option Mv))) := by
  intro s a s' he; unfold getKillers at he; split at he
  · injection he with _ h2; subst h2; exact ⟨rfl, rfl⟩
  · cases he
theorem insertKiller_neutral (ply : Nat) (m : Option Mv) : Neutral (insertKiller ply m : M (SS P O) Unit) := by
  intro s a s' he; unfold insertKiller at he; split at he
  · dsimp only at he
    split at he <;> (injection he with _ h2; subst h2; exact ⟨rfl, rfl⟩)
  · cases he

/-- with a clock that never expires a consultation says "go on" -/
theorem tick_never (t : DrawTable) : Triple (St (P := P) (O := O) t) tick (fun b s' => b = false ∧ St t s') := by
  refine ⟨?_⟩
  intro s b s' hp he
  obtain ⟨e1, e2⟩ := tick_eq he
  subst e1
  rw [hp.1] at e2
  exact ⟨e2, hp.1, hp.2⟩

def clamp (v a b : Int) : Int := max a (min b v)

theorem Bnd_clamp (v a b : Int) (hab : a < b) : Bnd v a b (clamp v a b) := by
  unfold clamp Bnd
  refine ⟨fun h => by omega, fun h => by omega, fun h1 h2 => by omega⟩

variable (g : Game P) (ord : Oracle P O)

/-- the oracle permutes what it is given -/
def OrdPerm : Prop := ∀ o e c l, ((ord o e c l).1).Perm l

theorem order_triple (hord : OrdPerm ord) (t : DrawTable) (c : Char) (l : List P) :
    Triple (St t) (order ord c l) (fun l' s' => l'.Perm l ∧ St t s') := by
  refine ⟨?_⟩
  intro s a s' hp he
  unfold order at he
  injection he with h1 h2
  subst h1; subst h2
  exact ⟨hord _ _ _ _, hp.1, hp.2⟩

/-- fail-hard quiescence loop: the best capture clamped into (alpha, beta) -/
theorem quiesceLoop_triple (f : P → Int → Int → M (SS P O) Int) (qv : P → Int) (t : DrawTable)
    (hf : ∀ m a b, a < b → Triple (St t) (f m a b) (fun v s' => v = clamp (qv m) a b ∧ St t s')) :
    ∀ (l : List P) (a b : Int), a < b →
      Triple (St t) (quiesceLoop f l a b) (fun v s' => v = min b (maxNeg qv l a) ∧ St t s') := by
  intro l
  induction l with
  | nil =>
    intro a b hab
    unfold quiesceLoop
    apply Triple.pure
    intro s hs
    exact ⟨by simp only [maxNeg]; omega, hs⟩
  | cons m ms ih =>
    intro a b hab
    unfold quiesceLoop
    apply Triple.bind (hf m (-b) (-a) (by omega))
    intro r
    refine ⟨?_⟩
    intro s v s' ⟨hr, hst⟩ he
    dsimp only at he
    subst hr
    have hcl : - clamp (qv m) (-b) (-a) = max a (min b (- qv m)) := by unfold clamp; omega
    rw [hcl] at he
    simp only [maxNeg]
    by_cases hc : max a (min b (- qv m)) ≥ b
    · rw [if_pos hc] at he
      have : (Pure.pure b : M (SS P O) Int) s = .ok b s := rfl
      rw [this] at he
      injection he with h1 h2
      subst h1; subst h2
      refine ⟨?_, hst⟩
      have := maxNeg_ge qv ms (max a (- qv m))
      omega
    · rw [if_neg hc] at he
      have hlt : - qv m < b := by omega
      have e1 : (if max a (min b (- qv m)) > a then max a (min b (- qv m)) else a) = max a (- qv m) := by
        split <;> omega
      rw [e1] at he
      exact (ih (max a (- qv m)) b (by omega)).run s v s' hst he

theorem quiesce_triple (hord : OrdPerm ord) (t : DrawTable) :
    ∀ (fuel : Nat) (p : P) (a b : Int), a < b →
      Triple (St t) (quiesce g ord fuel p a b) (fun v s' => v = clamp (qval g fuel p) a b ∧ St t s') := by
  intro fuel
  induction fuel with
  | zero =>
    intro p a b _
    refine ⟨?_⟩
    intro s v s' _ he
    unfold quiesce M.outOfFuel at he
    cases he
  | succ n ih =>
    intro p a b hab
    unfold quiesce
    apply Triple.bind (nodeSearched_neutral.triple t)
    intro _
    simp only [qval]
    by_cases hsp : g.eval p ≥ b
    · rw [if_pos hsp]
      apply Triple.pure
      intro s hs
      refine ⟨?_, hs⟩
      have := maxNeg_ge (qval g n) (g.gen p .caps) (g.eval p)
      unfold clamp; omega
    · rw [if_neg hsp]
      apply Triple.bind (order_triple ord hord t 'Q' _)
      intro moves
      refine ⟨?_⟩
      intro s v s' ⟨hperm, hst⟩ he
      have hl := (quiesceLoop_triple (quiesce g ord n) (qval g n) t (fun m a b h => ih m a b h) moves
        (if a < g.eval p then g.eval p else a) b (by split <;> omega)).run s v s' hst he
      refine ⟨?_, hl.2⟩
      rw [hl.1, maxNeg_perm (qval g n) _ _ hperm]
      have hge := maxNeg_ge (qval g n) (g.gen p .caps) (g.eval p)
      have e0 : (if a < g.eval p then g.eval p else a) = max a (g.eval p) := by split <;> omega
      have hmono : maxNeg (qval g n) (g.gen p .caps) (if a < g.eval p then g.eval p else a) =
          max a (maxNeg (qval g n) (g.gen p .caps) (g.eval p)) := by
        rw [e0, maxNeg_max_acc]
      rw [hmono]
      unfold clamp
      omega

end Walleye

namespace Walleye
open Spec DrawTable

variable {P O : Type} (g : Game P)

theorem pure_ok {σ α : Type} {a b : α} {s s' : σ} (h : (Pure.pure a : M σ α) s = .ok b s') : b = a ∧ s' = s := by
  have e : (Pure.pure a : M σ α) s = .ok a s := rfl
  rw [e] at h
  injection h with h1 h2
  exact ⟨h1.symm, h2.symm⟩

/-- what is assumed about the recursive call inside the loops: the window relation for every
    child, in every state of the family `St t'` -/
def ChildSpec (f : ABFun P O) (val : P → Int) (d1 ply1 : Nat) (t' : DrawTable) : Prop :=
  ∀ m lo hi n, lo < hi → Triple (St t') (f m d1 ply1 lo hi n) (fun v s' => Bnd (val m) lo hi v ∧ St t' s')

/-- the zero-window loop with re-search (engine.rs:205-255): `M` is the true maximum over the moves
    searched so far, `a0` the alpha the node was entered with -/
theorem abLoop_triple (f : ABFun P O) (val : P → Int) (d1 ply : Nat) (t' : DrawTable)
    (hf : ChildSpec f val d1 (ply + 1) t') (beta a0 : Int) :
    ∀ (ms : List P) (a best mx : Int), a < beta → a0 ≤ a → mx ≤ best → best ≤ a →
      (a0 < best → best = mx ∧ a = best) → (best ≤ a0 → a = a0) →
      Triple (St t') (abLoop g f ms d1 ply a beta best)
        (fun v s' => Bnd (maxNeg val ms mx) a0 beta v ∧ St t' s') := by
  intro ms
  induction ms with
  | nil =>
    intro a best mx hab ha0 hM hba hex hlo
    unfold abLoop
    apply Triple.pure
    intro s hs
    exact ⟨⟨fun _ => hM, fun h => by omega, fun h1 _ => (hex h1).1⟩, hs⟩
  | cons m ms ih =>
    intro a best mx hab ha0 hM hba hex hlo
    refine ⟨?_⟩
    intro s v s' hst he
    unfold abLoop at he
    -- insert_into_cur_line
    obtain ⟨_, s1, h1, he⟩ := bind_ok he
    have hst1 : St t' s1 := ((insertCur_neutral ply _).triple t').run s () s1 hst h1
    -- zero-window search
    obtain ⟨r0, s2, h2, he⟩ := bind_ok he
    obtain ⟨⟨z1, z2, z3⟩, hst2⟩ := (hf m (-a - 1) (-a) true (by omega)).run s1 r0 s2 hst1 h2
    dsimp only at he
    simp only [maxNeg]
    -- the cut-off exit: optional killer insertion, then `return score`
    have cutoff : ∀ (sc : Int) (sa : SS P O), St t' sa →
        (if g.oh m = 0 then (do insertKiller ply (g.lastMove m); pure sc) else (pure sc : M (SS P O) Int)) sa = .ok v s' →
        v = sc ∧ St t' s' := by
      intro sc sa hsa hc
      by_cases hoh : g.oh m = 0
      · rw [if_pos hoh] at hc
        obtain ⟨_, s4, h5, hc⟩ := bind_ok hc
        have hst4 : St t' s4 := ((insertKiller_neutral ply _).triple t').run sa () s4 hsa h5
        obtain ⟨hv, hs'⟩ := pure_ok hc
        exact ⟨hv, by rw [hs']; exact hst4⟩
      · rw [if_neg hoh] at hc
        obtain ⟨hv, hs'⟩ := pure_ok hc
        exact ⟨hv, by rw [hs']; exact hsa⟩
    by_cases hre : - r0 > a ∧ - r0 < beta
    · -- re-search with the full window
      rw [if_pos hre] at he
      obtain ⟨r1, s3, h4, he⟩ := bind_ok he
      obtain ⟨⟨f1, f2, f3⟩, hst3⟩ := (hf m (-beta) (-a) true (by omega)).run s2 r1 s3 hst2 h4
      obtain ⟨pr, s3', h3, he⟩ := bind_ok he
      obtain ⟨hpr, hs3⟩ := pure_ok h3
      rw [hs3] at he
      simp only [hpr] at he
      by_cases hsc : - r1 > best
      · rw [if_pos hsc] at he
        by_cases hcut : - r1 ≥ beta
        · rw [if_pos hcut] at he
          obtain ⟨hv, hst4⟩ := cutoff _ _ hst3 he
          subst hv
          refine ⟨⟨fun h => by omega, fun _ => ?_, fun _ h => by omega⟩, hst4⟩
          have : - r1 ≤ - val m := by have := f1 (by omega); omega
          exact Int.le_trans (Int.le_trans this (Int.le_max_right _ _)) (maxNeg_ge val ms _)
        · rw [if_neg hcut] at he
          obtain ⟨_, s4, h5, he⟩ := bind_ok he
          have hst4 : St t' s4 := (setPV_neutral.triple t').run s3 () s4 hst3 h5
          by_cases hs1 : - r1 > a
          · have hexact : - r1 = - val m := by have := f3 (by omega) (by omega); omega
            simp only [hs1, if_true] at he
            exact (ih (- r1) (- r1) (max mx (- val m)) (by omega) (by omega) (by omega) (by omega)
              (fun _ => ⟨by omega, rfl⟩) (fun h => by omega)).run s4 v s' hst4 he
          · simp only [hs1, if_false] at he
            have hub : - val m ≤ - r1 := by have := f2 (by omega); omega
            exact (ih a (- r1) (max mx (- val m)) hab ha0 (by omega) (by omega)
              (fun h => by omega) (fun h => by omega)).run s4 v s' hst4 he
      · rw [if_neg hsc] at he
        by_cases hs1 : - r1 > a
        · omega
        · simp only [hs1, if_false] at he
          have hub : - val m ≤ - r1 := by have := f2 (by omega); omega
          exact (ih a best (max mx (- val m)) hab ha0 (by omega) hba
            (fun h => by have := hex h; omega) hlo).run s3 v s' hst3 he
    · -- no re-search: the zero-window result stands
      rw [if_neg hre] at he
      obtain ⟨pr, s3', h3, he⟩ := bind_ok he
      obtain ⟨hpr, hs3⟩ := pure_ok h3
      rw [hs3] at he
      simp only [hpr] at he
      by_cases hsc : - r0 > best
      · rw [if_pos hsc] at he
        by_cases hcut : - r0 ≥ beta
        · rw [if_pos hcut] at he
          obtain ⟨hv, hst4⟩ := cutoff _ _ hst2 he
          subst hv
          refine ⟨⟨fun h => by omega, fun _ => ?_, fun _ h => by omega⟩, hst4⟩
          have : - r0 ≤ - val m := by have := z1 (by omega); omega
          exact Int.le_trans (Int.le_trans this (Int.le_max_right _ _)) (maxNeg_ge val ms _)
        · rw [if_neg hcut] at he
          have hle : - r0 ≤ a := by omega
          have hub : - val m ≤ - r0 := by have := z2 (by omega); omega
          obtain ⟨_, s4, h5, he⟩ := bind_ok he
          have hst4 : St t' s4 := (setPV_neutral.triple t').run s2 () s4 hst2 h5
          exact (ih a (- r0) (max mx (- val m)) hab ha0 (by omega) (by omega)
            (fun h => by omega) (fun h => by omega)).run s4 v s' hst4 he
      · rw [if_neg hsc] at he
        have hle : - r0 ≤ a := by omega
        have hub : - val m ≤ - r0 := by have := z2 (by omega); omega
        exact (ih a best (max mx (- val m)) hab ha0 (by omega) hba
          (fun h => by have := hex h; omega) hlo).run s2 v s' hst2 he

end Walleye

namespace Walleye
open Spec DrawTable

variable {P O : Type} (g : Game P) (ord : Oracle P O)

theorem maxNeg_map_tag (val : P → Int) (tag : P → P) (htag : ∀ m, val (tag m) = val m) (l : List P) (acc : Int) :
    maxNeg val (l.map tag) acc = maxNeg val l acc := by
  induction l generalizing acc with
  | nil => rfl
  | cons m ms ih => simp only [List.map_cons, maxNeg, htag]; exact ih _

/-- value of a node once it is known not to be a repetition: what `abBody` computes -/
def nodeValue (val : P → Int) (p : P) (depth ply : Nat) : Int :=
  if depth = 0 ∧ ¬ g.inCheck p then qval g qFuel p
  else match g.gen p .all with
    | [] => if g.inCheck p then -(Gen.mateScore - ply) else 0
    | m :: ms => maxNeg val ms (- val m)

theorem negamax_succ (fuel depth ply : Nat) (t : DrawTable) (p : P) (h3 : t.isThreefold (g.key p) = false) :
    negamax g (fuel + 1) depth ply t p =
      nodeValue g (negamax g fuel ((if depth = 0 then 1 else depth) - 1) (ply + 1) ((t.add (g.key p)).getD t)) p depth ply := by
  simp only [negamax, h3, Bool.false_eq_true, if_false, nodeValue]
  by_cases hc : depth = 0 ∧ ¬ g.inCheck p = true
  · rw [if_pos hc, if_pos hc]
  · rw [if_neg hc, if_neg hc]
    cases g.gen p .all <;> rfl

/-- `abBody`: everything between the table add and the table remove -/
theorem abBody_triple (E : Nat) (hg : GameOK g E) (hord : OrdPerm ord) (f : ABFun P O) (t1 : DrawTable)
    (p : P) (depth ply : Nat) (val : P → Int) (hd : depth < 3)
    (hval : ∀ m x, val (g.withOh m x) = val m)
    (hf : ChildSpec f val ((if depth = 0 then 1 else depth) - 1) (ply + 1) t1)
    (hrange : -(Gen.mateScore - ply) ≤ nodeValue g val p depth ply ∧ nodeValue g val p depth ply ≤ Gen.mateScore - ply - 1)
    (hply : (ply : Int) < Gen.mateScore)
    (a b : Int) (hab : a < b) (n : Bool) :
    Triple (St t1) (abBody g ord f p depth ply a b n)
      (fun v s' => Bnd (nodeValue g val p depth ply) a b v ∧ St t1 s') := by
  refine ⟨?_⟩
  intro s v s' hst he
  unfold abBody at he
  by_cases hq : depth = 0 ∧ ¬ g.inCheck p = true
  · rw [if_pos hq] at he
    obtain ⟨hv, hs'⟩ := (quiesce_triple g ord hord t1 qFuel p a b hab).run s v s' hst he
    subst hv
    simp only [nodeValue, hq, if_true, not_false_eq_true, and_self]
    exact ⟨Bnd_clamp _ _ _ hab, hs'⟩
  · rw [if_neg hq] at he
    dsimp only at he
    have hnv : nodeValue g val p depth ply = match g.gen p .all with
        | [] => if g.inCheck p then -(Gen.mateScore - ply) else 0
        | m :: ms => maxNeg val ms (- val m) := by simp only [nodeValue, hq, if_false]
    generalize hV : nodeValue g val p depth ply = V at hrange hnv ⊢
    -- the mate-distance clamp
    by_cases hclamp : max a (-Gen.mateScore + ply) ≥ min b (Gen.mateScore - ply)
    · rw [if_pos hclamp] at he
      obtain ⟨hv, hs'⟩ := pure_ok he
      subst hv; subst hs'
      refine ⟨?_, hst⟩
      unfold Bnd
      simp only [Gen.mateScore] at *
      refine ⟨fun h => by omega, fun h => by omega, fun h1 h2 => by omega⟩
    · rw [if_neg hclamp] at he
      -- window after the clamp
      generalize ha' : max a (-Gen.mateScore + ply) = a' at he hclamp
      generalize hb' : min b (Gen.mateScore - ply) = b' at he hclamp
      have hab' : a' < b' := by omega
      -- it suffices to prove Bnd for the clamped window
      suffices hs : Bnd V a' b' v ∧ St t1 s' by
        refine ⟨?_, hs.2⟩
        obtain ⟨c1, c2, c3⟩ := hs.1
        unfold Bnd
        simp only [Gen.mateScore] at *
        refine ⟨fun h => by have := c1 (by omega); omega, fun h => by have := c2 (by omega); omega, fun h1 h2 => ?_⟩
        by_cases k1 : v ≤ a'
        · have := c1 k1; omega
        · by_cases k2 : b' ≤ v
          · have := c2 k2; omega
          · exact c3 (by omega) (by omega)
      -- the null-move branch is dead below depth 3
      have hnull : ¬ (n = true ∧ (if depth = 0 then 1 else depth) ≥ Gen.nullMinDepth ∧ ¬ g.inCheck p = true) := by
        simp only [Gen.nullMinDepth]; split <;> omega
      rw [if_neg hnull] at he
      obtain ⟨pr, s0, h0, he⟩ := bind_ok he
      obtain ⟨hpr, hs0⟩ := pure_ok h0
      rw [hs0] at he
      simp only [hpr, Bool.false_eq_true, if_false] at he
      -- terminal node?
      cases hgen : g.gen p .all with
      | nil =>
        rw [hgen] at he hnv
        simp only [List.isEmpty_nil, if_true] at he
        obtain ⟨hv, hs'⟩ := pure_ok he
        subst hv; subst hs'
        simp only at hnv
        rw [hnv]
        exact ⟨Bnd.refl _ _ _, hst⟩
      | cons g0 gs =>
        rw [hgen] at he hnv
        simp only [List.isEmpty_cons, Bool.false_eq_true, if_false] at he
        simp only at hnv
        obtain ⟨pvm, s1, h1, he⟩ := bind_ok he
        have hst1 : St t1 s1 := ((getPV_neutral ply).triple t1).run s pvm s1 hst h1
        obtain ⟨ks, s2, h2, he⟩ := bind_ok he
        have hst2 : St t1 s2 := ((getKillers_neutral ply).triple t1).run s1 ks s2 hst1 h2
        obtain ⟨moves, s3, h3, he⟩ := bind_ok he
        obtain ⟨hperm, hst3⟩ := (order_triple ord hord t1 'A' _).run s2 moves s3 hst2 h3
        -- the value is the same for the ranked, permuted list
        have hrank : rankMoves g pvm ks (g0 :: gs) = (g0 :: gs).map (fun m =>
            if g.lastMove m = pvm then g.withOh m Gen.posInf
            else if (List.range Gen.killerPlySize).any (fun i => g.lastMove m = ks.getD i none)
              then g.withOh m Gen.killerMoveScore
            else m) := rfl
        have htag : ∀ m, val ((fun m =>
            if g.lastMove m = pvm then g.withOh m Gen.posInf
            else if (List.range Gen.killerPlySize).any (fun i => g.lastMove m = ks.getD i none)
              then g.withOh m Gen.killerMoveScore
            else m) m) = val m := by
          intro m; dsimp only; split
          · exact hval _ _
          · split
            · exact hval _ _
            · rfl
        cases hm : moves with
        | nil =>
          rw [hm] at hperm
          rw [hrank] at hperm
          exact absurd (List.Perm.eq_nil hperm.symm) (by simp)
        | cons m0 rest =>
          rw [hm] at he hperm
          dsimp only at he
          have hVm : V = maxNeg val rest (- val m0) := by
            rw [hnv]
            rw [hrank, List.map_cons] at hperm
            rw [headMax_perm val m0 rest _ _ hperm, maxNeg_map_tag val _ htag, htag]
          obtain ⟨_, s4, h4, he⟩ := bind_ok he
          have hst4 : St t1 s4 := ((insertCur_neutral ply _).triple t1).run s3 () s4 hst3 h4
          rw [hVm]
          -- the first move with the full window, then the loop
          have core : ∀ s5 : SS P O, St t1 s5 →
              (do
                let r ← f m0 ((if depth = 0 then 1 else depth) - 1) (ply + 1) (-b') (-a') true
                if -r > a' then
                  if -r ≥ b' then pure (-r)
                  else do
                    setPV
                    abLoop g f rest ((if depth = 0 then 1 else depth) - 1) ply (-r) b' (-r)
                else abLoop g f rest ((if depth = 0 then 1 else depth) - 1) ply a' b' (-r)) s5 = .ok v s' →
              Bnd (maxNeg val rest (- val m0)) a' b' v ∧ St t1 s' := by
            intro s5 hst5 he
            obtain ⟨r0, s6, h6, he⟩ := bind_ok he
            obtain ⟨⟨c1, c2, c3⟩, hst6⟩ := (hf m0 (-b') (-a') true (by omega)).run s5 r0 s6 hst5 h6
            by_cases hbest : - r0 > a'
            · rw [if_pos hbest] at he
              by_cases hcut : - r0 ≥ b'
              · rw [if_pos hcut] at he
                obtain ⟨hv, hs'⟩ := pure_ok he
                subst hv; subst hs'
                refine ⟨⟨fun h => by omega, fun _ => ?_, fun _ h => by omega⟩, hst6⟩
                have : - r0 ≤ - val m0 := by have := c1 (by omega); omega
                exact Int.le_trans this (maxNeg_ge _ _ _)
              · rw [if_neg hcut] at he
                obtain ⟨_, s7, h7, he⟩ := bind_ok he
                have hst7 : St t1 s7 := (setPV_neutral.triple t1).run s6 () s7 hst6 h7
                have hexact : - r0 = - val m0 := by have := c3 (by omega) (by omega); omega
                exact (abLoop_triple g f val _ ply t1 hf b' a' rest (- r0) (- r0) (- val m0) (by omega) (by omega)
                  (by omega) (by omega) (fun _ => ⟨hexact, rfl⟩) (fun h => by omega)).run s7 v s' hst7 he
            · rw [if_neg hbest] at he
              have hub : - val m0 ≤ - r0 := by have := c2 (by omega); omega
              exact (abLoop_triple g f val _ ply t1 hf b' a' rest a' (- r0) (- val m0) hab' (by omega)
                hub (by omega) (fun h => by omega) (fun _ => rfl)).run s6 v s' hst6 he
          by_cases hoh : g.oh m0 ≠ Gen.posInf
          · rw [if_pos hoh] at he
            obtain ⟨_, s5, h5, he⟩ := bind_ok he
            exact core s5 ((setPV_neutral.triple t1).run s4 () s5 hst4 h5) he
          · rw [if_neg hoh] at he
            exact core s4 hst4 he

end Walleye

namespace Walleye
open Spec DrawTable

variable {P O : Type} (g : Game P) (ord : Oracle P O)

/-- **ab_spec** — the engine-shaped alpha-beta of the model satisfies the window relation with
    respect to the specification's minimax value: for every game with a bounded evaluation, every
    ordering oracle that permutes, every window, every repetition table, below the null-move
    threshold, when the clock does not expire and the call finishes normally. -/
theorem ab_spec (E : Nat) (hg : GameOK g E) (hord : OrdPerm ord) :
    ∀ (fuel : Nat) (p : P) (depth ply : Nat) (a b : Int) (n : Bool) (t : DrawTable),
      depth < 3 → a < b → (E : Int) + ply + fuel < Gen.mateScore →
      Triple (St t) (alphaBeta g ord fuel p depth ply a b n)
        (fun v s' => Bnd (negamax g fuel depth ply t p) a b v ∧ St t s') := by
  intro fuel
  induction fuel with
  | zero =>
    intro p d ply a b n t _ _ _
    refine ⟨?_⟩
    intro s v s' _ he
    unfold alphaBeta M.outOfFuel at he
    cases he
  | succ k ih =>
    intro p d ply a b n t hd hab hE
    refine ⟨?_⟩
    intro s v s' hst he
    unfold alphaBeta at he
    obtain ⟨oot, s1, h1, he⟩ := bind_ok he
    obtain ⟨hoot, hst1⟩ := (tick_never t).run s oot s1 hst h1
    subst hoot
    simp only [Bool.false_eq_true, if_false] at he
    obtain ⟨_, s2, h2, he⟩ := bind_ok he
    have hst2 : St t s2 := (nodeSearched_neutral.triple t).run s1 () s2 hst1 h2
    obtain ⟨sg, s3, h3, he⟩ := bind_ok he
    have hg3 : sg = s2 ∧ s3 = s2 := by
      have e : (M.get : M (SS P O) (SS P O)) s2 = .ok s2 s2 := rfl
      rw [e] at h3
      injection h3 with x y
      exact ⟨x.symm, y.symm⟩
    obtain ⟨e1, e2⟩ := hg3
    rw [e2] at he
    simp only [e1] at he
    have hth : s2.table.isThreefold (g.key p) = t.isThreefold (g.key p) := isThreefold_congr hst2.2 _
    by_cases h3f : t.isThreefold (g.key p) = true
    · -- repetition: valued 0 at once
      rw [hth, if_pos h3f] at he
      obtain ⟨hv, hs'⟩ := pure_ok he
      subst hv; subst hs'
      refine ⟨?_, hst2⟩
      simp only [negamax, h3f, if_true]
      exact Bnd.refl _ _ _
    · rw [hth, if_neg h3f] at he
      have h3f' : t.isThreefold (g.key p) = false := by simpa using h3f
      -- table add
      obtain ⟨_, s4, h4, he⟩ := bind_ok he
      unfold tableAdd at h4
      cases hadd : s2.table.add (g.key p) with
      | none => rw [hadd] at h4; cases h4
      | some ts =>
        rw [hadd] at h4
        injection h4 with _ h4
        subst h4
        -- the spec's table after the add has the same counts
        have ht1 : TableEq ts ((t.add (g.key p)).getD t) := by
          have := add_congr hst2.2 (g.key p)
          rw [hadd] at this
          exact this
        have hst4 : St ((t.add (g.key p)).getD t) { s2 with table := ts } := ⟨hst2.1, ht1⟩
        -- the body
        obtain ⟨r, s5, h5, he⟩ := bind_ok he
        have hvalue := negamax_succ g k d ply t p h3f'
        have hrange := negamax_range g E hg (k + 1) d ply t p hE
        rw [hvalue] at hrange
        have hchild : ChildSpec (alphaBeta g ord k)
            (negamax g k ((if d = 0 then 1 else d) - 1) (ply + 1) ((t.add (g.key p)).getD t))
            ((if d = 0 then 1 else d) - 1) (ply + 1) ((t.add (g.key p)).getD t) := by
          intro m lo hi nn hlh
          exact ih m _ (ply + 1) lo hi nn _ (by split <;> omega) hlh (by push_cast; push_cast at hE; omega)
        obtain ⟨hb, hst5⟩ := (abBody_triple g ord E hg hord (alphaBeta g ord k) _ p d ply _ hd
          (fun m x => hg.ohV _ _ _ _ m x) hchild hrange (by simp only [Gen.mateScore] at hE ⊢; omega) a b hab n).run
          _ r s5 hst4 h5
        -- table remove
        obtain ⟨_, s6, h6, he⟩ := bind_ok he
        obtain ⟨hv, hs'⟩ := pure_ok he
        subst hv; subst hs'
        rw [hvalue]
        refine ⟨hb, ?_⟩
        unfold tableRemove at h6
        have hc1 := count_add (t := s2.table) hadd
        have hpos : 0 < count s5.table (g.key p) := by
          rw [hst5.2 (g.key p), ← ht1 (g.key p), hc1 (g.key p)]; simp
        obtain ⟨t3, hrem, hc3⟩ := count_remove_of_pos hpos
        rw [hrem] at h6
        injection h6 with _ h6
        subst h6
        refine ⟨hst5.1, ?_⟩
        intro k'
        show count t3 k' = count t k'
        rw [hc3 k', ← hst2.2 k']
        by_cases hk : g.key p = k'
        · subst hk
          simp only [if_true]
          rw [hst5.2 (g.key p), ← ht1 (g.key p), hc1 (g.key p)]; simp
        · simp only [hk, if_false]
          rw [hst5.2 k', ← ht1 k', hc1 k']; simp [hk]

/-- exactness: whenever the minimax value lies strictly inside the window, the engine-shaped search
    returns exactly that value — whatever the ordering oracle does (PV first, killers, MVV-LVA,
    zero-window re-search never change the value) -/
theorem ab_exact (E : Nat) (hg : GameOK g E) (hord : OrdPerm ord) (fuel : Nat) (p : P) (depth ply : Nat)
    (a b : Int) (n : Bool) (t : DrawTable) (s s' : SS P O) (v : Int)
    (hd : depth < 3) (hE : (E : Int) + ply + fuel < Gen.mateScore) (hst : St t s)
    (h1 : a < negamax g fuel depth ply t p) (h2 : negamax g fuel depth ply t p < b)
    (he : alphaBeta g ord fuel p depth ply a b n s = .ok v s') :
    v = negamax g fuel depth ply t p :=
  ((ab_spec g ord E hg hord fuel p depth ply a b n t hd (by omega) hE).run s v s' hst he).1.exact h1 h2

end Walleye
