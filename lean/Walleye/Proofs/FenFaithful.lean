/-
  C15 faithfulness: the FEN loader accepts every well-formed FEN text (any grouping of the empty
  squares into digits, any order of the castling letters, any counters below 2^32) and the loaded
  position has exactly the placement, side, rights, en passant target and king squares it states.
-/
import Walleye.Proofs.FenKey
import Walleye.Proofs.LegalPres
import Walleye.Spec.CanonFen
namespace Walleye
open Str

/-! ### splitting -/

theorem splitOn_ne_nil (sep : Char) (s : List Char) : splitOn sep s ≠ [] := by
  induction s with
  | nil => simp [splitOn]
  | cons c cs ih =>
    unfold splitOn
    split
    · simp
    · split <;> simp

theorem splitOn_nosep (sep : Char) (a : List Char) (h : sep ∉ a) : splitOn sep a = [a] := by
  induction a with
  | nil => rfl
  | cons c cs ih =>
    have hc : c ≠ sep := fun e => h (by simp [e])
    have hcs : sep ∉ cs := fun e => h (by simp [e])
    unfold splitOn
    rw [if_neg hc, ih hcs]

theorem splitOn_append (sep : Char) (a b : List Char) (h : sep ∉ a) :
    splitOn sep (a ++ sep :: b) = a :: splitOn sep b := by
  induction a with
  | nil => simp [splitOn]
  | cons c cs ih =>
    have hc : c ≠ sep := fun e => h (by simp [e])
    have hcs : sep ∉ cs := fun e => h (by simp [e])
    simp only [List.cons_append]
    rw [splitOn, if_neg hc, ih hcs]

theorem trimNewline_id (s : List Char) (h : ∀ c, s.getLast? = some c → c ≠ '\n') : trimNewline s = s := by
  unfold trimNewline
  cases hr : s.reverse with
  | nil => rfl
  | cons c rest =>
    have hl : s.getLast? = some c := by
      rw [List.getLast?_eq_head?_reverse, hr]; rfl
    have := h c hl
    split
    · rename_i heq; injection heq with e _; exact absurd e this
    · rename_i heq; injection heq with e _; exact absurd e this
    · rfl

/-! ### tokens of a FEN row -/

def TokOK : Tok → Prop
  | .gap n => 1 ≤ n ∧ n ≤ 8
  | .pc _ => True

theorem piece_lookup (p : Piece) : Gen.fenPieces.lookup (pieceFenChar p) = some p ∧ isDigit (pieceFenChar p) = false := by
  obtain ⟨c, k⟩ := p
  cases c <;> cases k <;> exact ⟨by decide, by decide⟩

theorem gap_digit (n : Nat) (h : 1 ≤ n ∧ n ≤ 8) :
    isDigit (Char.ofNat (48 + n)) = true ∧ digitVal (Char.ofNat (48 + n)) = n := by
  have : n = 1 ∨ n = 2 ∨ n = 3 ∨ n = 4 ∨ n = 5 ∨ n = 6 ∨ n = 7 ∨ n = 8 := by omega
  rcases this with rfl | rfl | rfl | rfl | rfl | rfl | rfl | rfl <;> exact ⟨by decide, by decide⟩

def sqOf : Option Piece → Square
  | some p => .full p
  | none => .empty

theorem rowCells_length (ts : List Tok) : (rowCells ts).length = rowWidth ts := by
  induction ts with
  | nil => rfl
  | cons t ts ih =>
    simp only [rowCells, List.flatMap_cons, List.length_append, rowWidth, List.map_cons, List.sum_cons] at *
    rw [ih]
    cases t <;> simp [tokCells, tokWidth]

/-! ### one character -/

def kpA (a : FenAcc) : Color → Point
  | .white => a.wk
  | .black => a.bk

/-- if a king of a colour has been written, the cache of that colour points at such a king -/
def CI (a : FenAcc) : Prop :=
  ∀ c, (∃ r k, a.board.get r k = .full ⟨c, .king⟩) → a.board.get (kpA a c).row (kpA a c).col = .full ⟨c, .king⟩

variable (h : Hasher) (k0 : UInt64)

theorem empties_get (b : Board) (r c n : Nat) (hr : r < 12) (hc : c + n ≤ 12) :
    (∀ j, j < n → ((List.range n).foldl (fun b i => b.set r (c + i) .empty) b).get r (c + j) = .empty) ∧
    (∀ r' c', ¬ (r' = r ∧ c ≤ c' ∧ c' < c + n) → ((List.range n).foldl (fun b i => b.set r (c + i) .empty) b).get r' c' = b.get r' c') := by
  induction n with
  | zero => exact ⟨fun j hj => by omega, fun r' c' _ => rfl⟩
  | succ k ih =>
    obtain ⟨i1, i2⟩ := ih (by omega)
    rw [List.range_succ, List.foldl_append]
    simp only [List.foldl_cons, List.foldl_nil]
    constructor
    · intro j hj
      by_cases e : j = k
      · subst e; exact Board.get_set_eq _ _ _ _ hr (by omega)
      · rw [Board.get_set_ne _ _ _ _ _ _ (by omega)]; exact i1 j (by omega)
    · intro r' c' hn
      rw [Board.get_set_ne _ _ _ _ _ _ (by omega)]
      exact i2 r' c' (by omega)

theorem fenChar_gap (a : FenAcc) (n : Nat) (hn : 1 ≤ n ∧ n ≤ 8) (hb : a.row < Gen.boardEnd) (hc : a.col + n ≤ Gen.boardEnd) :
    ∃ a', fenChar h a (Char.ofNat (48 + n)) = .ok a' ∧ a'.row = a.row ∧ a'.col = a.col + n ∧ a'.wk = a.wk ∧ a'.bk = a.bk ∧
      (∀ j, j < n → a'.board.get a.row (a.col + j) = .empty) ∧
      (∀ r c, ¬ (r = a.row ∧ a.col ≤ c ∧ c < a.col + n) → a'.board.get r c = a.board.get r c) := by
  obtain ⟨d1, d2⟩ := gap_digit n hn
  simp only [Gen.boardEnd] at hb hc
  unfold fenChar
  have h1 : ¬ (a.row ≥ Gen.boardEnd ∨ a.col ≥ Gen.boardEnd) := by simp only [Gen.boardEnd]; omega
  rw [if_neg h1, if_pos d1]
  simp only [d2]
  have h2 : ¬ (n + a.col > Gen.boardEnd) := by simp only [Gen.boardEnd]; omega
  rw [if_neg h2]
  obtain ⟨e1, e2⟩ := empties_get a.board a.row a.col n (by omega) (by omega)
  exact ⟨_, rfl, rfl, rfl, rfl, rfl, e1, e2⟩

theorem fenChar_pc (a : FenAcc) (p : Piece) (hb : a.row < Gen.boardEnd ∧ a.col < Gen.boardEnd) :
    ∃ a', fenChar h a (pieceFenChar p) = .ok a' ∧ a'.row = a.row ∧ a'.col = a.col + 1 ∧
      a'.board = a.board.set a.row a.col (.full p) ∧
      (∀ c, kpA a' c = if p = ⟨c, .king⟩ then ⟨a.row, a.col⟩ else kpA a c) := by
  obtain ⟨l1, l2⟩ := piece_lookup p
  unfold fenChar
  have h1 : ¬ (a.row ≥ Gen.boardEnd ∨ a.col ≥ Gen.boardEnd) := by omega
  rw [if_neg h1]
  simp only [l2, Bool.false_eq_true, if_false, l1]
  obtain ⟨pc, pk⟩ := p
  by_cases hk : pk = .king
  · subst hk
    cases pc <;> simp only [if_true] <;> refine ⟨_, rfl, rfl, rfl, rfl, fun c => ?_⟩ <;> cases c <;> simp [kpA]
  · have : ¬ ((⟨pc, pk⟩ : Piece).kind = .king) := hk
    rw [if_neg this]
    refine ⟨_, rfl, rfl, rfl, rfl, fun c => ?_⟩
    have : ¬ ((⟨pc, pk⟩ : Piece) = ⟨c, .king⟩) := by intro e; injection e with _ e; exact hk e
    rw [if_neg this]
    cases c <;> rfl

/-! ### one row -/

theorem ci_gap (a a' : FenAcc) (n : Nat) (hci : CI a) (hw : a'.wk = a.wk) (hbk : a'.bk = a.bk)
    (he : ∀ j, j < n → a'.board.get a.row (a.col + j) = .empty)
    (ho : ∀ r c, ¬ (r = a.row ∧ a.col ≤ c ∧ c < a.col + n) → a'.board.get r c = a.board.get r c)
    (hahead : ∀ c, a.col ≤ c → a.board.get a.row c = .boundary) : CI a' := by
  intro c ⟨r, k, hk⟩
  have hkp : kpA a' c = kpA a c := by cases c <;> simp [kpA, hw, hbk]
  -- the king square is not in the span of fresh empties
  have hold : a.board.get r k = .full ⟨c, .king⟩ := by
    by_cases hs : r = a.row ∧ a.col ≤ k ∧ k < a.col + n
    · obtain ⟨rfl, h1, h2⟩ := hs
      have := he (k - a.col) (by omega)
      have e : a.col + (k - a.col) = k := by omega
      rw [e, hk] at this; cases this
    · rw [← ho r k hs]; exact hk
  have hc := hci c ⟨r, k, hold⟩
  rw [hkp]
  by_cases hs : (kpA a c).row = a.row ∧ a.col ≤ (kpA a c).col ∧ (kpA a c).col < a.col + n
  · have := hahead (kpA a c).col hs.2.1
    rw [← hs.1, hc] at this; cases this
  · rw [ho _ _ hs]; exact hc

theorem ci_pc (a a' : FenAcc) (p : Piece) (hci : CI a) (hb : a.row < 12 ∧ a.col < 12)
    (hbd : a'.board = a.board.set a.row a.col (.full p))
    (hkp : ∀ c, kpA a' c = if p = ⟨c, .king⟩ then ⟨a.row, a.col⟩ else kpA a c)
    (hahead : a.board.get a.row a.col = .boundary) : CI a' := by
  intro c ⟨r, k, hk⟩
  rw [hkp c, hbd]
  by_cases hp : p = ⟨c, .king⟩
  · rw [if_pos hp, Board.get_set_eq _ _ _ _ hb.1 hb.2, hp]
  · rw [if_neg hp]
    rw [hbd] at hk
    have hne : ¬ (a.row = r ∧ a.col = k) := by
      rintro ⟨rfl, rfl⟩
      rw [Board.get_set_eq _ _ _ _ hb.1 hb.2] at hk
      exact hp (Square.full.inj hk)
    rw [Board.get_set_ne _ _ _ _ _ _ hne] at hk
    have hc := hci c ⟨r, k, hk⟩
    have hne2 : ¬ (a.row = (kpA a c).row ∧ a.col = (kpA a c).col) := by
      rintro ⟨e1, e2⟩
      rw [← e1, ← e2, hahead] at hc; cases hc
    rw [Board.get_set_ne _ _ _ _ _ _ hne2]; exact hc

/-- reading the characters of one row of tokens -/
theorem row_read (ts : List Tok) :
    ∀ a : FenAcc, FInv h k0 a → CI a → a.row < Gen.boardEnd → a.col + rowWidth ts ≤ Gen.boardEnd → (∀ t ∈ ts, TokOK t) →
      ∃ a', fenRowChars h a (ts.map tokChar) = .ok a' ∧ FInv h k0 a' ∧ CI a' ∧ a'.row = a.row ∧
        a'.col = a.col + rowWidth ts ∧
        (∀ j x, (rowCells ts)[j]? = some x → a'.board.get a.row (a.col + j) = sqOf x) ∧
        (∀ r c, ¬ (r = a.row ∧ a.col ≤ c) → a'.board.get r c = a.board.get r c) := by
  induction ts with
  | nil =>
    intro a hi hci _ _ _
    exact ⟨a, rfl, hi, hci, rfl, by simp [rowWidth], fun j x hx => by simp [rowCells] at hx, fun _ _ _ => rfl⟩
  | cons t ts ih =>
    intro a hi hci hr hc hok
    have hlo := hi.lo
    simp only [Gen.boardEnd] at hr hc
    have hwc : rowWidth (t :: ts) = tokWidth t + rowWidth ts := by simp [rowWidth]
    rw [hwc] at hc
    have hokt := hok t (by simp)
    have hoks : ∀ t' ∈ ts, TokOK t' := fun t' ht' => hok t' (by simp [ht'])
    simp only [List.map_cons, fenRowChars]
    cases t with
    | gap n =>
      simp only [TokOK] at hokt
      simp only [tokWidth] at hc
      obtain ⟨a1, hf, r1, c1, w1, b1, e1, o1⟩ := fenChar_gap h a n hokt (by simp only [Gen.boardEnd]; omega) (by simp only [Gen.boardEnd]; omega)
      simp only [tokChar]
      rw [hf]
      simp only
      have hi1 := (finv_fenChar h k0 a a1 _ hi hf).1
      have hci1 : CI a1 := ci_gap a a1 n hci w1 b1 e1 o1 (fun c hcc => hi.ahead a.row c (Or.inr ⟨rfl, hcc⟩))
      obtain ⟨a', hf', hi', hci', r', c', g', o'⟩ := ih a1 hi1 hci1 (by rw [r1]; simp only [Gen.boardEnd]; omega)
        (by rw [c1]; simp only [Gen.boardEnd]; omega) hoks
      refine ⟨a', hf', hi', hci', by rw [r', r1], by rw [c', c1, hwc]; simp only [tokWidth]; omega, ?_, ?_⟩
      · intro j x hx
        simp only [rowCells, List.flatMap_cons, tokCells] at hx
        by_cases hj : j < n
        · rw [List.getElem?_append_left (by simp; exact hj)] at hx
          have hxn : x = none := by
            rw [List.getElem?_replicate] at hx
            simp [hj] at hx; exact hx.symm
          subst hxn
          rw [o' a.row (a.col + j) (by rw [r1, c1]; omega)]
          exact e1 j hj
        · rw [List.getElem?_append_right (by simp; omega)] at hx
          simp only [List.length_replicate] at hx
          have := g' (j - n) x hx
          rw [r1, c1] at this
          have e : a.col + n + (j - n) = a.col + j := by omega
          rw [e] at this; exact this
      · intro r c hn
        rw [o' r c (by rw [r1, c1]; omega), o1 r c (by omega)]
    | pc p =>
      simp only [tokWidth] at hc
      obtain ⟨a1, hf, r1, c1, b1, kp1⟩ := fenChar_pc h a p (by simp only [Gen.boardEnd]; omega)
      simp only [tokChar]
      rw [hf]
      simp only
      have hi1 := (finv_fenChar h k0 a a1 _ hi hf).1
      have hci1 : CI a1 := ci_pc a a1 p hci (by omega) b1 kp1 (hi.ahead a.row a.col (Or.inr ⟨rfl, Nat.le_refl _⟩))
      obtain ⟨a', hf', hi', hci', r', c', g', o'⟩ := ih a1 hi1 hci1 (by rw [r1]; simp only [Gen.boardEnd]; omega)
        (by rw [c1]; simp only [Gen.boardEnd]; omega) hoks
      refine ⟨a', hf', hi', hci', by rw [r', r1], by rw [c', c1, hwc]; simp only [tokWidth]; omega, ?_, ?_⟩
      · intro j x hx
        simp only [rowCells, List.flatMap_cons, tokCells] at hx
        cases j with
        | zero =>
          simp at hx
          subst hx
          rw [o' a.row (a.col + 0) (by rw [r1, c1]; omega), b1]
          exact Board.get_set_eq _ _ _ _ (by omega) (by omega)
        | succ j' =>
          simp at hx
          have := g' j' x hx
          rw [r1, c1] at this
          have e : a.col + 1 + j' = a.col + (j' + 1) := by omega
          rw [e] at this; exact this
      · intro r c hn
        rw [o' r c (by rw [r1, c1]; omega), b1, Board.get_set_ne _ _ _ _ _ _ (by omega)]

/-! ### the eight rows -/

def RowOK (row : List Tok) : Prop := rowWidth row = 8 ∧ ∀ t ∈ row, TokOK t

theorem rows_read (rows : List (List Tok)) :
    ∀ a : FenAcc, FInv h k0 a → CI a → a.col = Gen.boardStart → a.row + rows.length ≤ Gen.boardEnd →
      (∀ row ∈ rows, RowOK row) →
      ∃ a', fenRows h a (rows.map fun r => r.map tokChar) = .ok a' ∧ FInv h k0 a' ∧ CI a' ∧
        (∀ i row, rows[i]? = some row → ∀ j x, (rowCells row)[j]? = some x →
          a'.board.get (a.row + i) (Gen.boardStart + j) = sqOf x) ∧
        (∀ r c, r < a.row → a'.board.get r c = a.board.get r c) := by
  induction rows with
  | nil =>
    intro a hi hci _ _ _
    exact ⟨a, rfl, hi, hci, fun i row hr => by simp at hr, fun _ _ _ => rfl⟩
  | cons row rows ih =>
    intro a hi hci hcol hlen hok
    simp only [Gen.boardEnd, Gen.boardStart, List.length_cons] at hcol hlen
    obtain ⟨hw, htok⟩ := hok row (by simp)
    obtain ⟨a1, hf, hi1, hci1, r1, c1, g1, o1⟩ := row_read h k0 row a hi hci (by simp only [Gen.boardEnd]; omega)
      (by rw [hw, hcol]; decide) htok
    simp only [List.map_cons, fenRows]
    rw [hf]
    simp only
    have hc10 : ¬ (a1.col ≠ Gen.boardEnd) := by rw [c1, hw, hcol]; simp [Gen.boardEnd]
    rw [if_neg hc10]
    -- the accumulator advanced to the next row
    have hi2 : FInv h k0 { a1 with row := a1.row + 1, col := Gen.boardStart } := by
      refine ⟨fun r c hrc => hi1.ahead r c (by simp only at hrc; omega), hi1.ring, hi1.key, by
        have := hi1.lo; simp only [Gen.boardStart]; omega⟩
    have hci2 : CI { a1 with row := a1.row + 1, col := Gen.boardStart } := hci1
    obtain ⟨a', hf', hi', hci', g', o'⟩ := ih { a1 with row := a1.row + 1, col := Gen.boardStart } hi2 hci2 rfl
      (by simp only [Gen.boardEnd]; rw [r1]; omega) (fun r hr => hok r (by simp [hr]))
    refine ⟨a', hf', hi', hci', ?_, ?_⟩
    · intro i rw' hrw j x hx
      cases i with
      | zero =>
        simp at hrw
        subst hrw
        have := g1 j x hx
        rw [hcol] at this
        simp only [Gen.boardStart, Nat.add_zero]
        rw [o' a.row (2 + j) (by simp only; rw [r1]; omega)]
        exact this
      | succ i' =>
        simp at hrw
        have := g' i' rw' hrw j x hx
        simp only at this
        rw [r1] at this
        have e : a.row + 1 + i' = a.row + (i' + 1) := by omega
        rw [e] at this; exact this
    · intro r c hr
      rw [o' r c (by simp only; rw [r1]; omega), o1 r c (by omega)]

/-! ### the whole FEN -/

theorem splitOn_joinWith (sep : Char) (xs : List (List Char)) (hne : xs ≠ []) (hs : ∀ x ∈ xs, sep ∉ x) :
    splitOn sep (joinWith sep xs) = xs := by
  induction xs with
  | nil => exact absurd rfl hne
  | cons x rest ih =>
    cases rest with
    | nil => simp only [joinWith]; exact splitOn_nosep sep x (hs x (by simp))
    | cons y rest' =>
      simp only [joinWith]
      rw [splitOn_append sep x _ (hs x (by simp)), ih (by simp) (fun z hz => hs z (by simp [hz]))]

theorem tokChar_ne (t : Tok) (ht : TokOK t) : tokChar t ≠ ' ' ∧ tokChar t ≠ '/' := by
  cases t with
  | gap n =>
    simp only [TokOK] at ht
    have : n = 1 ∨ n = 2 ∨ n = 3 ∨ n = 4 ∨ n = 5 ∨ n = 6 ∨ n = 7 ∨ n = 8 := by omega
    rcases this with rfl | rfl | rfl | rfl | rfl | rfl | rfl | rfl <;> exact ⟨by decide, by decide⟩
  | pc p => obtain ⟨c, k⟩ := p; cases c <;> cases k <;> exact ⟨by decide, by decide⟩

theorem mem_joinWith (sep : Char) (xs : List (List Char)) (c : Char) (hc : c ∈ joinWith sep xs) :
    c = sep ∨ ∃ x ∈ xs, c ∈ x := by
  induction xs with
  | nil => simp [joinWith] at hc
  | cons x rest ih =>
    cases rest with
    | nil => simp only [joinWith] at hc; exact Or.inr ⟨x, by simp, hc⟩
    | cons y rest' =>
      simp only [joinWith, List.mem_append, List.mem_cons] at hc
      rcases hc with hc | hc | hc
      · exact Or.inr ⟨x, by simp, hc⟩
      · exact Or.inl hc
      · rcases ih hc with e | ⟨z, hz, hcz⟩
        · exact Or.inl e
        · exact Or.inr ⟨z, by simp [hz], hcz⟩

def CounterOK (s : List Char) : Prop := s ≠ [] ∧ s.all isDigit = true ∧ digitsVal s < 2 ^ 32

theorem counter_parse (s : List Char) (hs : CounterOK s) : (parseUnsigned 32 s).isNone = false ∧ ' ' ∉ s ∧
    (∀ c, s.getLast? = some c → c ≠ '\n') := by
  obtain ⟨h1, h2, h3⟩ := hs
  have hdig : ∀ c ∈ s, isDigit c = true := by rw [List.all_eq_true] at h2; exact h2
  refine ⟨?_, ?_, ?_⟩
  · have hemp : s.isEmpty = false := by cases s with | nil => exact absurd rfl h1 | cons _ _ => rfl
    unfold parseUnsigned
    split
    · rename_i rest
      have := hdig '+' (by simp); exact absurd this (by decide)
    · simp only [hemp, Bool.false_eq_true, if_false, h2, if_true, h3]; rfl
  · intro hm; have := hdig ' ' hm; exact absurd this (by decide)
  · intro c hc hn
    have hmem : c ∈ s := List.mem_of_getLast? hc
    have := hdig c hmem
    rw [hn] at this; exact absurd this (by decide)

theorem ep_facts : ∀ r c : Fin 8,
    byteLen (pointDisplay ⟨r.val + 2, c.val + 2⟩) = 2 ∧
    pointFromStr (pointDisplay ⟨r.val + 2, c.val + 2⟩) = .ok ⟨r.val + 2, c.val + 2⟩ ∧
    ' ' ∉ pointDisplay ⟨r.val + 2, c.val + 2⟩ := by
  decide +kernel

theorem ep_facts' (e : Point) (he : OnBoard e) :
    byteLen (pointDisplay e) = 2 ∧ pointFromStr (pointDisplay e) = .ok e ∧ ' ' ∉ pointDisplay e := by
  unfold OnBoard at he
  have := ep_facts ⟨e.row - 2, by omega⟩ ⟨e.col - 2, by omega⟩
  simp only at this
  have h1 : e.row - 2 + 2 = e.row := by omega
  have h2 : e.col - 2 + 2 = e.col := by omega
  rw [h1, h2] at this
  exact this

theorem gl_app (a b : List Char) (hb : b ≠ []) : (a ++ b).getLast? = b.getLast? := by
  rw [List.getLast?_append]
  cases hb' : b.getLast? with
  | none => rw [List.getLast?_eq_none_iff] at hb'; exact absurd hb' hb
  | some c => rfl

theorem gl_cons (x : Char) (f : List Char) (hf : f ≠ []) : (x :: f).getLast? = f.getLast? := by
  cases f with
  | nil => exact absurd rfl hf
  | cons y ys => rw [List.getLast?_cons_cons]

theorem placement_chars (rows : List (List Tok)) (hrows : ∀ row ∈ rows, RowOK row) :
    ' ' ∉ joinWith '/' (rows.map fun r => r.map tokChar) ∧
    ∀ x ∈ (rows.map fun r => r.map tokChar), '/' ∉ x := by
  have key : ∀ x ∈ (rows.map fun r => r.map tokChar), ' ' ∉ x ∧ '/' ∉ x := by
    intro x hx
    rw [List.mem_map] at hx
    obtain ⟨row, hrow, rfl⟩ := hx
    have hok := (hrows row hrow).2
    constructor
    · intro hm; rw [List.mem_map] at hm; obtain ⟨t, ht, e⟩ := hm
      exact (tokChar_ne t (hok t ht)).1 e
    · intro hm; rw [List.mem_map] at hm; obtain ⟨t, ht, e⟩ := hm
      exact (tokChar_ne t (hok t ht)).2 e
  refine ⟨?_, fun x hx => (key x hx).2⟩
  intro hm
  rcases mem_joinWith _ _ _ hm with e | ⟨x, hx, hcx⟩
  · exact absurd e (by decide)
  · exact (key x hx).1 hcx

theorem fenText_split (rows : List (List Tok)) (side : Color) (rights : List Char) (ep : Option Point)
    (half full : List Char) (hrows : ∀ row ∈ rows, RowOK row) (hr : ' ' ∉ rights)
    (hep : ∀ e, ep = some e → OnBoard e) (hh : CounterOK half) (hf : CounterOK full) :
    splitOn ' ' (trimNewline (fenText rows side rights ep half full)) =
      [joinWith '/' (rows.map fun r => r.map tokChar), sideText side, rights, epFenText ep, half, full] := by
  have hfull := counter_parse full hf
  have hhalf := counter_parse half hh
  have htrim : trimNewline (fenText rows side rights ep half full) = fenText rows side rights ep half full := by
    apply trimNewline_id
    intro c hc
    unfold fenText at hc
    have ne : ∀ (a : List Char) (x : Char) (b : List Char), a ++ x :: b ≠ [] := by intro a x b; simp
    rw [gl_app _ _ (by simp), gl_cons _ _ (ne _ _ _), gl_app _ _ (by simp), gl_cons _ _ (ne _ _ _),
      gl_app _ _ (by simp), gl_cons _ _ (ne _ _ _), gl_app _ _ (by simp), gl_cons _ _ (ne _ _ _),
      gl_app _ _ (by simp), gl_cons _ _ hf.1] at hc
    exact hfull.2.2 c hc
  rw [htrim]
  unfold fenText
  have hside : ' ' ∉ sideText side := by cases side <;> decide
  have hepS : ' ' ∉ epFenText ep := by
    cases ep with
    | none => decide
    | some e => exact (ep_facts' e (hep e rfl)).2.2
  rw [splitOn_append _ _ _ (placement_chars rows hrows).1, splitOn_append _ _ _ hside, splitOn_append _ _ _ hr,
    splitOn_append _ _ _ hepS, splitOn_append _ _ _ hhalf.2.1, splitOn_nosep _ _ hfull.2.1]

/-- the record `from_fen` assembles from the parsed fields -/
def loadedPos (h : Hasher) (a : FenAcc) (side : Color) (rights : List Char) (ep : Option Point) : Pos :=
  let key := match ep with
    | some pt => a.key ^^^ h.epFile pt.col
    | none => a.key
  let wks := rights.contains 'K'
  let wqs := rights.contains 'Q'
  let bks := rights.contains 'k'
  let bqs := rights.contains 'q'
  let key := if wks then key ^^^ h.castle .wks else key
  let key := if wqs then key ^^^ h.castle .wqs else key
  let key := if bks then key ^^^ h.castle .bks else key
  let key := if bqs then key ^^^ h.castle .bqs else key
  { board := a.board, toMove := side, ep := ep, wk := a.wk, bk := a.bk,
    wks := wks, wqs := wqs, bks := bks, bqs := bqs, oh := 0,
    lastMove := none, promo := none, key := key }

/-- **C15, faithfulness**: the loader reads every well-formed FEN text as the position it describes -/
theorem fromFen_reads (rows : List (List Tok)) (side : Color) (rights : List Char) (ep : Option Point)
    (half full : List Char) (hlen : rows.length = 8) (hrows : ∀ row ∈ rows, RowOK row) (hr : ' ' ∉ rights)
    (hep : ∀ e, ep = some e → OnBoard e) (hh : CounterOK half) (hf : CounterOK full) :
    ∃ p a, fromFen h (fenText rows side rights ep half full) = .ok p ∧
      p.toMove = side ∧ p.ep = ep ∧ p.wks = rights.contains 'K' ∧ p.wqs = rights.contains 'Q' ∧
      p.bks = rights.contains 'k' ∧ p.bqs = rights.contains 'q' ∧
      p.board = a.board ∧ p.wk = a.wk ∧ p.bk = a.bk ∧ CI a ∧
      (∀ i row, rows[i]? = some row → ∀ j x, (rowCells row)[j]? = some x →
        p.board.get (2 + i) (2 + j) = sqOf x) := by
  have hsplit := fenText_split rows side rights ep half full hrows hr hep hh hf
  have hhalf := (counter_parse half hh).1
  have hfull := (counter_parse full hf).1
  have hpl := splitOn_joinWith '/' (rows.map fun r => r.map tokChar)
    (by intro e; rw [List.map_eq_nil_iff] at e; rw [e] at hlen; cases hlen) (placement_chars rows hrows).2
  have hside : (if sideText side = ['w'] then some Color.white else if sideText side = ['b'] then some Color.black else none)
      = some side := by cases side <;> rfl
  obtain ⟨a', hread, _, hci, hcells, _⟩ := rows_read h (if side = .black then h.side else 0) rows
    ⟨emptyBoard, Gen.boardStart, Gen.boardStart, ⟨0, 0⟩, ⟨0, 0⟩, if side = .black then h.side else 0⟩
    (finv_init h _)
    (by intro c ⟨r, k, hk⟩; rw [show (emptyBoard : Board) = default from rfl, default_get] at hk; cases hk)
    rfl (by show 2 + rows.length ≤ 10; omega) hrows
  refine ⟨loadedPos h a' side rights ep, a', ?_, ?_⟩
  · unfold fromFen
    simp only [hsplit, hside, hhalf, hfull, Bool.false_eq_true, if_false, hpl, List.length_map, hlen, ne_eq,
      not_true_eq_false, hread]
    cases ep with
    | none => rfl
    | some e =>
      obtain ⟨e1, e2, _⟩ := ep_facts' e (hep e rfl)
      simp only [epFenText, e1, not_true_eq_false, if_false, e2]
      rfl
  · exact ⟨rfl, rfl, rfl, rfl, rfl, rfl, rfl, rfl, rfl, hci, hcells⟩

/-! ### a legal position loaded from its FEN text is well-formed -/

theorem kingsOK_of_cache (p : Pos) (hr : RingOK p.board)
    (hci : ∀ c, (∃ r k, p.board.get r k = .full ⟨c, .king⟩) →
      p.board.get (kingPt p c).row (kingPt p c).col = .full ⟨c, .king⟩)
    (hone : ∀ c, (Spec.kingSquares (abs p) c).length = 1) : KingsOK p := by
  intro c
  obtain ⟨s, hs⟩ := List.length_eq_one_iff.mp (hone c)
  have hmem : ∀ y, y ∈ Spec.kingSquares (abs p) c ↔ (InB y ∧ (abs p).at y = some ⟨c, .king⟩) := by
    intro y
    unfold Spec.kingSquares
    rw [List.mem_filter, mem_allSquares]
    simp
  have hs' : InB s ∧ (abs p).at s = some ⟨c, .king⟩ := (hmem s).mp (by rw [hs]; simp)
  have hex := get_of_at p s hs'.1 _ hs'.2
  have hcache := hci c ⟨_, _, hex⟩
  have uniq : ∀ r k, p.board.get r k = .full ⟨c, .king⟩ → (⟨r, k⟩ : Point) = toPt s := by
    intro r k hg
    have hob : OnBoard ⟨r, k⟩ := hr r k (by rw [hg]; simp)
    have : specOf ⟨r, k⟩ ∈ Spec.kingSquares (abs p) c := by
      rw [hmem]; refine ⟨specOf_inB _ hob, ?_⟩
      rw [at_specOf p _ hob]; show squareToOpt (p.board.get r k) = _; rw [hg]; rfl
    rw [hs] at this
    have e : specOf ⟨r, k⟩ = s := by simpa using this
    rw [← e, toPt_specOf _ hob]
  refine ⟨hcache, fun r k hg => ?_⟩
  rw [uniq r k hg, ← uniq _ _ hcache]

theorem epWF_of_lp (p : Pos) (hlp : LP (abs p)) (hepb : ∀ t, p.ep = some t → OnBoard t) : EpWF p := by
  intro t ht
  have hob := hepb t ht
  have hob' := hob
  unfold OnBoard at hob'
  have hae : (abs p).ep = some (specOf t) := by unfold abs; simp only [ht]; rfl
  obtain ⟨_, hrank, _, hpawn, _⟩ := hlp.ep _ hae
  have hside : (abs p).side = p.toMove := rfl
  rw [hside] at hrank hpawn
  cases hc : p.toMove with
  | white =>
    rw [hc] at hrank hpawn
    simp only [Color.opp, specOf, Spec.fwd] at hrank hpawn
    have hrow : t.row = 4 := by omega
    have hin : InB ⟨t.col - 2, 4⟩ := by unfold InB; simp only; omega
    have e : (⟨t.col - 2, ((9 - t.row : Nat) + (-1 : Int)).toNat⟩ : Spec.Sq) = ⟨t.col - 2, 4⟩ := by
      rw [hrow]; rfl
    rw [e] at hpawn
    have hg := get_of_at p _ hin _ hpawn
    have hfr : front Color.white t = toPt ⟨t.col - 2, 4⟩ := by
      unfold front toPt; simp only; congr 1 <;> omega
    refine ⟨hob, ?_, ?_⟩
    · rw [hfr]; exact toPt_onBoard _ hin
    · rw [hfr]; exact hg
  | black =>
    rw [hc] at hrank hpawn
    simp only [Color.opp, specOf, Spec.fwd] at hrank hpawn
    have hrow : t.row = 7 := by omega
    have hin : InB ⟨t.col - 2, 3⟩ := by unfold InB; simp only; omega
    have e : (⟨t.col - 2, ((9 - t.row : Nat) + (1 : Int)).toNat⟩ : Spec.Sq) = ⟨t.col - 2, 3⟩ := by
      rw [hrow]; rfl
    rw [e] at hpawn
    have hg := get_of_at p _ hin _ hpawn
    have hfr : front Color.black t = toPt ⟨t.col - 2, 3⟩ := by
      unfold front toPt; simp only; congr 1 <;> omega
    refine ⟨hob, ?_, ?_⟩
    · rw [hfr]; exact toPt_onBoard _ hin
    · rw [hfr]; exact hg

/-- **C15 → C01/C02**: a well-formed FEN text that describes a legal position loads as a position
    on which every generator theorem applies (`WFp`, `Inv`) -/
theorem fromFen_wf (rows : List (List Tok)) (side : Color) (rights : List Char) (ep : Option Point)
    (half full : List Char) (hlen : rows.length = 8) (hrows : ∀ row ∈ rows, RowOK row) (hr : ' ' ∉ rights)
    (hep : ∀ e, ep = some e → OnBoard e) (hh : CounterOK half) (hf : CounterOK full) :
    ∃ p, fromFen h (fenText rows side rights ep half full) = .ok p ∧
      (LP (abs p) → WFp p ∧ Inv h p) := by
  obtain ⟨p, a, hload, _, hpe, _, _, _, _, hb, hwk, hbk, hci, hcells⟩ :=
    fromFen_reads h rows side rights ep half full hlen hrows hr hep hh hf
  refine ⟨p, hload, fun hlp => ?_⟩
  obtain ⟨hkey, hring⟩ := fromFen_inv h _ p hload
  have hepb : ∀ t, p.ep = some t → OnBoard t := by rw [hpe]; exact hep
  have hinner : InnerOK p.board := by
    intro r c hob
    unfold OnBoard at hob
    simp only at hob
    have hi : r - 2 < rows.length := by omega
    have hrow := hrows _ (List.getElem_mem hi)
    have hj : c - 2 < (rowCells rows[r - 2]).length := by rw [rowCells_length, hrow.1]; omega
    have := hcells (r - 2) _ (List.getElem?_eq_getElem hi) (c - 2) _ (List.getElem?_eq_getElem hj)
    have e1 : 2 + (r - 2) = r := by omega
    have e2 : 2 + (c - 2) = c := by omega
    rw [e1, e2] at this
    rw [this]
    cases (rowCells rows[r - 2])[c - 2] <;> simp [sqOf]
  have hkings : KingsOK p := by
    apply kingsOK_of_cache p hring
    · intro c hex
      have hk : kingPt p c = kpA a c := by cases c <;> simp [kingPt, kpA, hwk, hbk]
      rw [hk, hb]
      apply hci c
      rw [← hb]; exact hex
    · intro c; cases c
      · exact hlp.wking
      · exact hlp.bking
  exact ⟨⟨hring, hinner, hkings, hlp, hepb⟩, ⟨hring, epWF_of_lp p hlp hepb, hkey⟩⟩

/-! ### the canonical FEN text of a position -/

theorem canonAux_cells (l : List (Option Piece)) : ∀ n, rowCells (canonAux n l) = List.replicate n none ++ l := by
  induction l with
  | nil => intro n; cases n <;> simp [canonAux, rowCells, tokCells]
  | cons x rest ih =>
    intro n
    cases x with
    | none =>
      rw [canonAux, ih (n + 1), List.replicate_succ']
      · simp
    | some p =>
      cases n with
      | zero =>
        rw [canonAux]
        have := ih 0
        simp only [rowCells, List.flatMap_cons, tokCells, List.replicate_zero, List.nil_append] at this ⊢
        rw [this]; rfl
      | succ m =>
        rw [canonAux]
        have := ih 0
        simp only [rowCells, List.flatMap_cons, tokCells, List.replicate_zero, List.nil_append] at this ⊢
        rw [this]; simp

theorem canonAux_ok (l : List (Option Piece)) : ∀ n, n + l.length ≤ 8 → ∀ t ∈ canonAux n l, TokOK t := by
  induction l with
  | nil =>
    intro n hn t ht
    cases n with
    | zero => simp [canonAux] at ht
    | succ m => simp only [canonAux, List.mem_singleton] at ht; subst ht; simp only [TokOK]; simp at hn; omega
  | cons x rest ih =>
    intro n hn t ht
    simp only [List.length_cons] at hn
    cases x with
    | none =>
      rw [canonAux] at ht
      · exact ih (n + 1) (by omega) t ht
    | some p =>
      cases n with
      | zero =>
        rw [canonAux] at ht
        simp only [List.mem_cons] at ht
        rcases ht with rfl | ht
        · trivial
        · exact ih 0 (by omega) t ht
      | succ m =>
        rw [canonAux] at ht
        simp only [List.mem_cons] at ht
        rcases ht with rfl | rfl | ht
        · simp only [TokOK]; omega
        · trivial
        · exact ih 0 (by omega) t ht

theorem rightsOf_facts (P : Spec.Position) :
    (rightsOf P).contains 'K' = P.wks ∧ (rightsOf P).contains 'Q' = P.wqs ∧ (rightsOf P).contains 'k' = P.bks ∧
    (rightsOf P).contains 'q' = P.bqs ∧ ' ' ∉ rightsOf P := by
  unfold rightsOf
  cases P.wks <;> cases P.wqs <;> cases P.bks <;> cases P.bqs <;> decide

theorem rowsOf_ok (P : Spec.Position) : (rowsOf P).length = 8 ∧ ∀ row ∈ rowsOf P, RowOK row := by
  refine ⟨by simp [rowsOf], ?_⟩
  intro row hrow
  unfold rowsOf at hrow
  rw [List.mem_map] at hrow
  obtain ⟨i, _, rfl⟩ := hrow
  have hl : (rankCells P (7 - i)).length = 8 := by simp [rankCells]
  refine ⟨?_, canonAux_ok _ 0 (by omega)⟩
  rw [← rowCells_length, canonAux_cells]; simp [hl]

/-- **C15**: every position's canonical FEN text loads as that position -/
theorem fromFen_canonical (P : Spec.Position) (hsz : P.cells.size = 64) (hep : ∀ e, P.ep = some e → InB e)
    (half full : List Char) (hh : CounterOK half) (hf : CounterOK full) :
    ∃ p, fromFen h (canonText P half full) = .ok p ∧ abs p = P ∧ (LP P → WFp p ∧ Inv h p) := by
  obtain ⟨hlen, hrows⟩ := rowsOf_ok P
  obtain ⟨r1, r2, r3, r4, r5⟩ := rightsOf_facts P
  have hepb : ∀ e, P.ep.map toPt = some e → OnBoard e := by
    intro e he
    cases hpe : P.ep with
    | none => rw [hpe] at he; cases he
    | some s => rw [hpe] at he; injection he with he; rw [← he]; exact toPt_onBoard s (hep s hpe)
  obtain ⟨p, hload, hwf⟩ := fromFen_wf h (rowsOf P) P.side (rightsOf P) (P.ep.map toPt) half full hlen hrows r5 hepb hh hf
  obtain ⟨p', a, hload', hside, hpe, hwks, hwqs, hbks, hbqs, _, _, _, _, hcells⟩ :=
    fromFen_reads h (rowsOf P) P.side (rightsOf P) (P.ep.map toPt) half full hlen hrows r5 hepb hh hf
  have : p' = p := by rw [hload] at hload'; injection hload' with e; exact e.symm
  subst this
  have habs : abs p' = P := by
    apply pos_ext
    · apply Array.ext
      · simp [abs, hsz]
      · intro i hi1 hi2
        simp only [abs, Array.getElem_ofFn]
        have hi : i < 64 := by rw [hsz] at hi2; exact hi2
        have hrow : (rowsOf P)[7 - i / 8]? = some (canonAux 0 (rankCells P (i / 8))) := by
          unfold rowsOf
          rw [List.getElem?_map, List.getElem?_range (by omega)]
          simp only [Option.map_some]
          congr 3; omega
        have hcell : (rowCells (canonAux 0 (rankCells P (i / 8))))[i % 8]? = some (P.at ⟨i % 8, i / 8⟩) := by
          rw [canonAux_cells]
          simp only [List.replicate_zero, List.nil_append, rankCells]
          rw [List.getElem?_map, List.getElem?_range (by omega)]; rfl
        have := hcells _ _ hrow _ _ hcell
        have e1 : 2 + (7 - i / 8) = 9 - i / 8 := by omega
        have e2 : 2 + i % 8 = i % 8 + 2 := by omega
        rw [e1, e2] at this
        rw [this]
        unfold Spec.Position.at
        have hb : i % 8 < 8 ∧ i / 8 < 8 := by omega
        simp only [hb, and_self, if_true]
        have e3 : i / 8 * 8 + i % 8 = i := by omega
        rw [e3, Array.getD_eq_getD_getElem?, Array.getElem?_eq_getElem hi2]
        cases P.cells[i] <;> rfl
    · exact hside
    · show p'.wks = P.wks; rw [hwks, r1]
    · show p'.wqs = P.wqs; rw [hwqs, r2]
    · show p'.bks = P.bks; rw [hbks, r3]
    · show p'.bqs = P.bqs; rw [hbqs, r4]
    · show p'.ep.map (fun e => (⟨e.col - 2, 9 - e.row⟩ : Spec.Sq)) = P.ep
      rw [hpe]
      cases hpe' : P.ep with
      | none => rfl
      | some s =>
        have := specOf_toPt s (hep s hpe')
        simp only [Option.map_some]
        congr 1
  refine ⟨p', hload, habs, fun hlp => hwf (by rw [habs]; exact hlp)⟩

end Walleye
