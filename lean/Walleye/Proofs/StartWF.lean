/- the start position is well formed: the premises of the C01/C02 theorems are satisfiable -/
import Walleye.Proofs.GenSound
import Walleye.Proofs.Start
namespace Walleye

theorem start_legal : Spec.LegalPosition (abs startPosition) = true := by decide +kernel

theorem start_inner : InnerOK startPosition.board := by
  intro r c hob
  unfold OnBoard at hob
  have key : ∀ r : Fin 12, ∀ c : Fin 12, (2 ≤ r.val ∧ r.val ≤ 9 ∧ 2 ≤ c.val ∧ c.val ≤ 9) →
      startPosition.board.get r.val c.val ≠ .boundary := by decide +kernel
  exact key ⟨r, by simp only at hob; omega⟩ ⟨c, by simp only at hob; omega⟩ hob

theorem start_kings : KingsOK startPosition := by
  intro c
  constructor
  · cases c <;> decide +kernel
  · intro r k h
    have hob := start_ring r k (by rw [h]; simp)
    unfold OnBoard at hob
    simp only at hob
    cases c
    · have key : ∀ r : Fin 12, ∀ k : Fin 12,
          startPosition.board.get r.val k.val = .full ⟨.white, .king⟩ → (⟨r.val, k.val⟩ : Point) = kingPt startPosition .white := by
        decide +kernel
      exact key ⟨r, by omega⟩ ⟨k, by omega⟩ h
    · have key : ∀ r : Fin 12, ∀ k : Fin 12,
          startPosition.board.get r.val k.val = .full ⟨.black, .king⟩ → (⟨r.val, k.val⟩ : Point) = kingPt startPosition .black := by
        decide +kernel
      exact key ⟨r, by omega⟩ ⟨k, by omega⟩ h

theorem start_wf : WFp startPosition :=
  ⟨start_ring, start_inner, start_kings, LP_of _ start_legal, fun t ht => by
    have : startPosition.ep = none := by decide +kernel
    rw [this] at ht; cases ht⟩

end Walleye
