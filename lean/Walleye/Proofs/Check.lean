/-
  C06: `is_check_cords` characterised declaratively on the 12x12 mailbox.
  `AttackedM b ac t k`: some piece of colour `ac` attacks square `t` under the rules of movement —
  a rook/queen (bishop/queen) on a straight (diagonal) line with only empty squares in between, a
  knight a knight's jump away, a pawn diagonally "in front" from the defender's point of view, or
  the enemy king `k` on an adjacent square.
-/
import Walleye.Proofs.Targets
namespace Walleye

/-- the first non-empty square along a ray: distance `n` (from the first probed square), all
    squares before it empty -/
theorem walk_firstHit (b : Board) (dr dc : Int) :
    ∀ (fuel : Nat) (r c : Int) (acc : List Point),
      (∃ n : Nat, n < fuel ∧ (b.getI (r + n * dr) (c + n * dc)).isEmpty = false) →
      ∃ n : Nat, (walk b dr dc fuel r c acc).2.1 = ptI (r + n * dr) (c + n * dc) ∧
        (walk b dr dc fuel r c acc).2.2 = b.getI (r + n * dr) (c + n * dc) ∧
        (b.getI (r + n * dr) (c + n * dc)).isEmpty = false ∧
        ∀ i : Nat, i < n → (b.getI (r + i * dr) (c + i * dc)).isEmpty = true := by
  intro fuel
  induction fuel with
  | zero => intro r c acc ⟨n, hn, _⟩; omega
  | succ k ih =>
    intro r c acc ⟨n, hn, hne⟩
    simp only [walk]
    by_cases he : (b.getI r c).isEmpty = true
    · simp only [he, if_true]
      -- the witness is not at distance 0
      have hn0 : n ≠ 0 := by
        intro e; subst e; simp at hne; rw [he] at hne; cases hne
      obtain ⟨n', hn'⟩ : ∃ n', n = n' + 1 := ⟨n - 1, by omega⟩
      subst hn'
      have hw : (b.getI (r + dr + (n' : Int) * dr) (c + dc + (n' : Int) * dc)).isEmpty = false := by
        have e1 : r + dr + (n' : Int) * dr = r + ((n' + 1 : Nat) : Int) * dr := by push_cast; rw [Int.add_mul]; omega
        have e2 : c + dc + (n' : Int) * dc = c + ((n' + 1 : Nat) : Int) * dc := by push_cast; rw [Int.add_mul]; omega
        rw [e1, e2]; exact hne
      obtain ⟨m, h1, h2, h3, h4⟩ := ih (r + dr) (c + dc) (acc ++ [ptI r c]) ⟨n', by omega, hw⟩
      refine ⟨m + 1, ?_, ?_, ?_, ?_⟩
      · rw [h1]; congr 1 <;> (push_cast; rw [Int.add_mul]; omega)
      · rw [h2]; congr 1 <;> (push_cast; rw [Int.add_mul]; omega)
      · have e1 : r + ((m + 1 : Nat) : Int) * dr = r + dr + (m : Int) * dr := by push_cast; rw [Int.add_mul]; omega
        have e2 : c + ((m + 1 : Nat) : Int) * dc = c + dc + (m : Int) * dc := by push_cast; rw [Int.add_mul]; omega
        rw [e1, e2]; exact h3
      · intro i hi
        cases i with
        | zero => simpa using he
        | succ j =>
          have := h4 j (by omega)
          have e1 : r + ((j + 1 : Nat) : Int) * dr = r + dr + (j : Int) * dr := by push_cast; rw [Int.add_mul]; omega
          have e2 : c + ((j + 1 : Nat) : Int) * dc = c + dc + (j : Int) * dc := by push_cast; rw [Int.add_mul]; omega
          rw [e1, e2]; exact this
    · have he' : (b.getI r c).isEmpty = false := by simpa using he
      simp only [he', Bool.false_eq_true, if_false]
      exact ⟨0, by simp, by simp, by simpa using he', fun i hi => by omega⟩

/-! ### the declarative attack relation on the mailbox -/

/-- the (n+1)-th square from `t` in direction `d` -/
def rayAt (b : Board) (t : Point) (d : Int × Int) (n : Nat) : Square :=
  b.getI ((t.row : Int) + d.1 + (n : Int) * d.1) ((t.col : Int) + d.2 + (n : Int) * d.2)

/-- a piece of kind `k` or a queen of colour `ac` stands on a line through `t` in one of the
    directions `dirs`, with only empty squares in between -/
def LineAttack (b : Board) (ac : Color) (dirs : List (Int × Int)) (k : Kind) (t : Point) : Prop :=
  ∃ d ∈ dirs, ∃ n : Nat, (∀ i : Nat, i < n → (rayAt b t d i).isEmpty = true) ∧
    (rayAt b t d n = .full ⟨ac, k⟩ ∨ rayAt b t d n = .full ⟨ac, .queen⟩)

def UnitDir (d : Int × Int) : Prop :=
  (d.1 = 1 ∨ d.1 = -1 ∨ d.1 = 0) ∧ (d.2 = 1 ∨ d.2 = -1 ∨ d.2 = 0) ∧ ¬ (d.1 = 0 ∧ d.2 = 0)

instance (d : Int × Int) : Decidable (UnitDir d) := by unfold UnitDir; infer_instance

theorem offboard_boundary (b : Board) (hr : RingOK b) (r c : Int)
    (h : ¬ (2 ≤ r ∧ r ≤ 9 ∧ 2 ≤ c ∧ c ≤ 9)) : b.getI r c = .boundary := by
  by_cases hb : b.getI r c = .boundary
  · exact hb
  · obtain ⟨h0, h1, e⟩ := getI_ne_boundary b r c hb
    have := hr r.toNat c.toNat (by rw [← e]; exact hb)
    unfold OnBoard at this
    exfalso; apply h; simp only at this; omega

theorem isPiece_iff (s : Square) (pc : Piece) : s.isPiece pc = true ↔ s = .full pc := by
  cases s <;> simp [Square.isPiece]

/-- nine steps from an on-board square in a unit direction is off the board -/
theorem ray_leaves (b : Board) (hr : RingOK b) (t : Point) (ht : OnBoard t) (d : Int × Int) (hd : UnitDir d) :
    (rayAt b t d 8).isEmpty = false := by
  unfold rayAt
  rw [offboard_boundary b hr]
  · rfl
  · unfold OnBoard at ht
    obtain ⟨h1, h2, h3⟩ := hd
    rcases h1 with e | e | e <;> rcases h2 with e' | e' | e' <;> rw [e, e'] <;>
      first | (exfalso; exact h3 ⟨e, e'⟩) | omega

/-- a non-boundary ray square at distance n+1 is within 7 steps -/
theorem ray_short (b : Board) (hr : RingOK b) (t : Point) (ht : OnBoard t) (d : Int × Int) (hd : UnitDir d)
    (n : Nat) (h : rayAt b t d n ≠ .boundary) : n < 8 := by
  by_cases hn : n < 8
  · exact hn
  · exfalso; apply h
    unfold rayAt
    apply offboard_boundary b hr
    unfold OnBoard at ht
    obtain ⟨h1, h2, h3⟩ := hd
    rcases h1 with e | e | e <;> rcases h2 with e' | e' | e' <;> rw [e, e'] <;>
      first | (exfalso; exact h3 ⟨e, e'⟩) | omega

/-- what the walk of `is_check_cords` sees in one direction is the first non-empty ray square -/
theorem walk_sees (b : Board) (hr : RingOK b) (t : Point) (ht : OnBoard t) (d : Int × Int) (hd : UnitDir d) :
    ∃ n : Nat, (walk b d.1 d.2 walkFuel ((t.row : Int) + d.1) ((t.col : Int) + d.2) []).2.2 = rayAt b t d n ∧
      (rayAt b t d n).isEmpty = false ∧ ∀ i : Nat, i < n → (rayAt b t d i).isEmpty = true := by
  obtain ⟨n, _, h2, h3, h4⟩ := walk_firstHit b d.1 d.2 walkFuel ((t.row : Int) + d.1) ((t.col : Int) + d.2) []
    ⟨8, by decide, ray_leaves b hr t ht d hd⟩
  exact ⟨n, h2, h3, h4⟩

theorem lineHit_iff (b : Board) (hr : RingOK b) (t : Point) (ht : OnBoard t) (ac : Color) (k : Kind)
    (dirs : List (Int × Int)) (hdirs : ∀ d ∈ dirs, UnitDir d) :
    (dirs.any fun d =>
      let (_, _, s) := walk b d.1 d.2 walkFuel ((t.row : Int) + d.1) ((t.col : Int) + d.2) []
      s.isPiece ⟨ac, k⟩ || s.isPiece ⟨ac, .queen⟩) = true ↔ LineAttack b ac dirs k t := by
  rw [List.any_eq_true]
  constructor
  · rintro ⟨d, hd, h⟩
    obtain ⟨n, e, _, h4⟩ := walk_sees b hr t ht d (hdirs d hd)
    refine ⟨d, hd, n, h4, ?_⟩
    rw [← e]
    simpa [isPiece_iff] using h
  · rintro ⟨d, hd, n, hemp, hhit⟩
    refine ⟨d, hd, ?_⟩
    obtain ⟨m, e, hne, h4⟩ := walk_sees b hr t ht d (hdirs d hd)
    have hnn : (rayAt b t d n).isEmpty = false := by rcases hhit with h | h <;> rw [h] <;> rfl
    have hmn : m = n := by
      rcases Nat.lt_trichotomy m n with h | h | h
      · rw [hemp m h] at hne; cases hne
      · exact h
      · rw [h4 n h] at hnn; cases hnn
    subst hmn
    generalize walk b d.1 d.2 walkFuel ((t.row : Int) + d.1) ((t.col : Int) + d.2) [] = w at e ⊢
    obtain ⟨a, h', s⟩ := w
    simp only at e ⊢
    rw [e]
    rcases hhit with h | h <;> rw [h] <;> simp [Square.isPiece]

/-- the row a pawn of colour `ac` attacks `row` from (black pawns move towards larger rows) -/
def attackerPawnRow (ac : Color) (row : Nat) : Nat :=
  match ac with
  | .black => row - 1
  | .white => row + 1

/-- the attack relation `is_check_cords` decides: `ac` attacks `t`; `ak` is `ac`'s king square -/
def AttackedM (b : Board) (ac : Color) (t : Point) (ak : Point) : Prop :=
  LineAttack b ac Gen.checkRookDirs .rook t ∨ LineAttack b ac Gen.checkBishopDirs .bishop t ∨
  (∃ rc ∈ Gen.knightCords, b.getI ((t.row : Int) + rc.1) ((t.col : Int) + rc.2) = .full ⟨ac, .knight⟩) ∨
  (b.get (attackerPawnRow ac t.row) (t.col - 1) = .full ⟨ac, .pawn⟩ ∨
   b.get (attackerPawnRow ac t.row) (t.col + 1) = .full ⟨ac, .pawn⟩) ∨
  (((ak.row : Int) - t.row).natAbs ≤ 1 ∧ ((ak.col : Int) - t.col).natAbs ≤ 1)

theorem checkRookDirs_unit : ∀ d ∈ Gen.checkRookDirs, UnitDir d := by decide
theorem checkBishopDirs_unit : ∀ d ∈ Gen.checkBishopDirs, UnitDir d := by decide

theorem isCheckCords_iff (p : Pos) (hr : RingOK p.board) (c : Color) (t : Point) (ht : OnBoard t) :
    isCheckCords p c t = true ↔
      AttackedM p.board c.opp t (match c with | .white => p.bk | .black => p.wk) := by
  unfold isCheckCords AttackedM
  simp only [Bool.or_eq_true, decide_eq_true_eq]
  rw [lineHit_iff p.board hr t ht c.opp .rook _ checkRookDirs_unit,
      lineHit_iff p.board hr t ht c.opp .bishop _ checkBishopDirs_unit, List.any_eq_true]
  simp only [isPiece_iff]
  cases c <;> simp only [Color.opp, or_assoc, attackerPawnRow]

end Walleye
