/-
  C06: `is_check_cords` characterised declaratively on the 12x12 mailbox.
  `AttackedM b ac t k`: some piece of colour `ac` attacks square `t` under the rules of movement —
  a rook/queen (bishop/queen) on a straight (diagonal) line with only empty squares in between, a
  knight a knight's jump away, a pawn diagonally "in front" from the defender's point of view, or
  the enemy king `k` on an adjacent square.
-/
import Walleye.Proofs.Targets
namespace Walleye

/-- the first non-empty square along a ray: distance `n` (from the first probed square), all
    squares before it empty -/
theorem walk_firstHit (b : Board) (dr dc : Int) :
    ∀ (fuel : Nat) (r c : Int) (acc : List Point),
      (∃ n, n < fuel ∧ (b.getI (r + n * dr) (c + n * dc)).isEmpty = false) →
      ∃ n, (walk b dr dc fuel r c acc).2.1 = ptI (r + n * dr) (c + n * dc) ∧
        (walk b dr dc fuel r c acc).2.2 = b.getI (r + n * dr) (c + n * dc) ∧
        (b.getI (r + n * dr) (c + n * dc)).isEmpty = false ∧
        ∀ i : Nat, i < n → (b.getI (r + i * dr) (c + i * dc)).isEmpty = true := by
  intro fuel
  induction fuel with
  | zero => intro r c acc ⟨n, hn, _⟩; omega
  | succ k ih =>
    intro r c acc ⟨n, hn, hne⟩
    simp only [walk]
    by_cases he : (b.getI r c).isEmpty = true
    · simp only [he, if_true]
      -- the witness is not at distance 0
      have hn0 : n ≠ 0 := by
        intro e; subst e; simp at hne; rw [he] at hne; cases hne
      obtain ⟨n', hn'⟩ : ∃ n', n = n' + 1 := ⟨n - 1, by omega⟩
      subst hn'
      have hw : (b.getI (r + dr + (n' : Int) * dr) (c + dc + (n' : Int) * dc)).isEmpty = false := by
        have e1 : r + dr + (n' : Int) * dr = r + ((n' + 1 : Nat) : Int) * dr := by push_cast; rw [Int.add_mul]; omega
        have e2 : c + dc + (n' : Int) * dc = c + ((n' + 1 : Nat) : Int) * dc := by push_cast; rw [Int.add_mul]; omega
        rw [e1, e2]; exact hne
      obtain ⟨m, h1, h2, h3, h4⟩ := ih (r + dr) (c + dc) (acc ++ [ptI r c]) ⟨n', by omega, hw⟩
      refine ⟨m + 1, ?_, ?_, ?_, ?_⟩
      · rw [h1]; congr 1 <;> (push_cast; rw [Int.add_mul]; omega)
      · rw [h2]; congr 1 <;> (push_cast; rw [Int.add_mul]; omega)
      · have e1 : r + ((m + 1 : Nat) : Int) * dr = r + dr + (m : Int) * dr := by push_cast; rw [Int.add_mul]; omega
        have e2 : c + ((m + 1 : Nat) : Int) * dc = c + dc + (m : Int) * dc := by push_cast; rw [Int.add_mul]; omega
        rw [e1, e2]; exact h3
      · intro i hi
        cases i with
        | zero => simpa using he
        | succ j =>
          have := h4 j (by omega)
          have e1 : r + ((j + 1 : Nat) : Int) * dr = r + dr + (j : Int) * dr := by push_cast; rw [Int.add_mul]; omega
          have e2 : c + ((j + 1 : Nat) : Int) * dc = c + dc + (j : Int) * dc := by push_cast; rw [Int.add_mul]; omega
          rw [e1, e2]; exact this
    · have he' : (b.getI r c).isEmpty = false := by simpa using he
      simp only [he', Bool.false_eq_true, if_false]
      exact ⟨0, by simp, by simp, by simpa using he', fun i hi => by omega⟩

end Walleye
