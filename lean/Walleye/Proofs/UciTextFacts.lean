/-
  Facts about the UCI text of a move (four or five ASCII characters), decided for all
  64 x 64 x 5 (from, to, promotion) triples by kernel computation.  (C04)
-/
import Walleye.Model.UciText
import Walleye.Proofs.Key
namespace Walleye
open Str

/-- the text printed for a move: from-square, to-square, promotion letter -/
def uciOf (f t : Point) (pr : Option Kind) : List Char :=
  pointDisplay f ++ pointDisplay t ++ (match pr with | some k => [Gen.kindAlg k] | none => [])

def promos : List (Option Kind) := [none, some .queen, some .knight, some .bishop, some .rook]

/-- the promotion piece `make_move` reads from the fifth character -/
def letterKind (ch : Char) : Kind :=
  if ch = 'q' then .queen else if ch = 'n' then .knight
  else if ch = 'b' then .bishop else if ch = 'r' then .rook else .queen

def textOK (f t : Point) (pr : Option Kind) : Bool :=
  let mv := uciOf f t pr
  (byteSlice mv 0 2 == some (pointDisplay f)) && (byteSlice mv 2 4 == some (pointDisplay t)) &&
  (parsePoint? (pointDisplay f) == some f) && (parsePoint? (pointDisplay t) == some t) &&
  (contains mv ['a', '8'] == (decide (f = ⟨2, 2⟩) || decide (t = ⟨2, 2⟩))) &&
  (contains mv ['h', '8'] == (decide (f = ⟨2, 9⟩) || decide (t = ⟨2, 9⟩))) &&
  (contains mv ['a', '1'] == (decide (f = ⟨9, 2⟩) || decide (t = ⟨9, 2⟩))) &&
  (contains mv ['h', '1'] == (decide (f = ⟨9, 9⟩) || decide (t = ⟨9, 9⟩))) &&
  (decide (byteLen mv = 5) == pr.isSome) &&
  (match pr with | some k => mv[4]?.map letterKind == some k | none => true) &&
  (decide (mv = Gen.wksStr.toList) == (decide (f = ⟨9, 6⟩) && decide (t = ⟨9, 8⟩) && pr.isNone)) &&
  (decide (mv = Gen.wqsStr.toList) == (decide (f = ⟨9, 6⟩) && decide (t = ⟨9, 4⟩) && pr.isNone)) &&
  (decide (mv = Gen.bksStr.toList) == (decide (f = ⟨2, 6⟩) && decide (t = ⟨2, 8⟩) && pr.isNone)) &&
  (decide (mv = Gen.bqsStr.toList) == (decide (f = ⟨2, 6⟩) && decide (t = ⟨2, 4⟩) && pr.isNone))

set_option maxRecDepth 100000 in
theorem textOK_all : (boardCoords.all fun f => boardCoords.all fun t => promos.all fun pr => textOK f t pr) = true := by
  decide +kernel

theorem textOK_of (f t : Point) (pr : Option Kind) (hf : OnBoard f) (ht : OnBoard t) (hp : pr ∈ promos) :
    textOK f t pr = true := by
  have h := textOK_all
  rw [List.all_eq_true] at h
  have h1 := h f ((mem_boardCoords f).mpr hf)
  rw [List.all_eq_true] at h1
  have h2 := h1 t ((mem_boardCoords t).mpr ht)
  rw [List.all_eq_true] at h2
  exact h2 pr hp

end Walleye
