/-
  Capture-only generation: the pseudo-legal targets in captures mode are the all-moves targets that
  are occupied.  (C13)
-/
import Walleye.Proofs.LegalPres
namespace Walleye

theorem get_ptI (b : Board) (r c : Int) (h : b.getI r c ≠ .boundary) :
    b.get (ptI r c).row (ptI r c).col = b.getI r c := by
  obtain ⟨_, _, e⟩ := getI_ne_boundary b r c h
  unfold ptI; exact e.symm

theorem tgtOK_caps_iff (c : Color) (sq : Square) :
    tgtOK .caps c sq = true ↔ tgtOK .all c sq = true ∧ sq.isEmpty = false := by
  rw [tgtOK_iff, tgtOK_iff]
  simp

theorem tgtOK_ne_boundary (mode : Mode) (c : Color) (sq : Square) (h : tgtOK mode c sq = true) : sq ≠ .boundary :=
  isEmptyOrColor_ne_boundary _ _ ((tgtOK_iff mode c sq).mp h).1

theorem knight_caps_iff (piece : Piece) (row col : Nat) (b : Board) (pt : Point) :
    pt ∈ knightMoves piece row col b .caps ↔
      pt ∈ knightMoves piece row col b .all ∧ (b.get pt.row pt.col).isEmpty = false := by
  rw [mem_knightMoves, mem_knightMoves]
  constructor
  · rintro ⟨rc, hrc, hpt, htg⟩
    obtain ⟨h1, h2⟩ := (tgtOK_caps_iff _ _).mp htg
    exact ⟨⟨rc, hrc, hpt, h1⟩, by rw [hpt, get_ptI b _ _ (tgtOK_ne_boundary _ _ _ htg)]; exact h2⟩
  · rintro ⟨⟨rc, hrc, hpt, htg⟩, hne⟩
    refine ⟨rc, hrc, hpt, (tgtOK_caps_iff _ _).mpr ⟨htg, ?_⟩⟩
    rw [hpt, get_ptI b _ _ (tgtOK_ne_boundary _ _ _ htg)] at hne; exact hne

theorem king_caps_iff (piece : Piece) (row col : Nat) (b : Board) (pt : Point) :
    pt ∈ kingMoves piece row col b .caps ↔
      pt ∈ kingMoves piece row col b .all ∧ (b.get pt.row pt.col).isEmpty = false := by
  rw [mem_kingMoves, mem_kingMoves]
  constructor
  · rintro ⟨i, j, hi, hj, hpt, htg⟩
    obtain ⟨h1, h2⟩ := (tgtOK_caps_iff _ _).mp htg
    exact ⟨⟨i, j, hi, hj, hpt, h1⟩, by rw [hpt]; exact h2⟩
  · rintro ⟨⟨i, j, hi, hj, hpt, htg⟩, hne⟩
    exact ⟨i, j, hi, hj, hpt, (tgtOK_caps_iff _ _).mpr ⟨htg, by rw [hpt] at hne; exact hne⟩⟩

theorem slide_caps_iff (piece : Piece) (row col : Nat) (b : Board) (d : Int × Int) (hr : RingOK b)
    (ht : OnBoard ⟨row, col⟩) (hd : UnitDir d) (pt : Point) :
    pt ∈ slideDir piece row col b .caps d ↔
      pt ∈ slideDir piece row col b .all d ∧ (b.get pt.row pt.col).isEmpty = false := by
  rw [mem_slideDir piece row col b .caps d hr ht hd, mem_slideDir piece row col b .all d hr ht hd]
  constructor
  · rintro ⟨n, hpt, hemp, htg⟩
    obtain ⟨h1, h2⟩ := (tgtOK_caps_iff _ _).mp htg
    refine ⟨⟨n, hpt, hemp, h1⟩, ?_⟩
    rw [hpt]; unfold rayPt
    rw [get_ptI b _ _ (tgtOK_ne_boundary _ _ _ htg)]; exact h2
  · rintro ⟨⟨n, hpt, hemp, htg⟩, hne⟩
    refine ⟨n, hpt, hemp, (tgtOK_caps_iff _ _).mpr ⟨htg, ?_⟩⟩
    rw [hpt] at hne; unfold rayPt at hne
    rw [get_ptI b _ _ (tgtOK_ne_boundary _ _ _ htg)] at hne; exact hne

theorem pawn_caps_iff (piece : Piece) (row col : Nat) (b : Board) (pt : Point) :
    pt ∈ pawnMoves piece row col b .caps ↔
      pt ∈ pawnMoves piece row col b .all ∧ (b.get pt.row pt.col).isEmpty = false := by
  cases hc : piece.color with
  | white =>
    rw [mem_pawnMoves_white piece hc, mem_pawnMoves_white piece hc]
    constructor
    · rintro (⟨hp, hx⟩ | ⟨hp, hx⟩ | ⟨hm, _⟩)
      · exact ⟨Or.inl ⟨hp, hx⟩, by rw [hp]; exact isColor_not_empty _ _ hx⟩
      · exact ⟨Or.inr (Or.inl ⟨hp, hx⟩), by rw [hp]; exact isColor_not_empty _ _ hx⟩
      · cases hm
    · rintro ⟨(⟨hp, hx⟩ | ⟨hp, hx⟩ | ⟨_, he, h⟩), hne⟩
      · exact Or.inl ⟨hp, hx⟩
      · exact Or.inr (Or.inl ⟨hp, hx⟩)
      · exfalso
        rcases h with h | ⟨_, h2, h3⟩
        · rw [h, he] at hne; cases hne
        · rw [h3, h2] at hne; cases hne
  | black =>
    rw [mem_pawnMoves_black piece hc, mem_pawnMoves_black piece hc]
    constructor
    · rintro (⟨hp, hx⟩ | ⟨hp, hx⟩ | ⟨hm, _⟩)
      · exact ⟨Or.inl ⟨hp, hx⟩, by rw [hp]; exact isColor_not_empty _ _ hx⟩
      · exact ⟨Or.inr (Or.inl ⟨hp, hx⟩), by rw [hp]; exact isColor_not_empty _ _ hx⟩
      · cases hm
    · rintro ⟨(⟨hp, hx⟩ | ⟨hp, hx⟩ | ⟨_, he, h⟩), hne⟩
      · exact Or.inl ⟨hp, hx⟩
      · exact Or.inr (Or.inl ⟨hp, hx⟩)
      · exfalso
        rcases h with h | ⟨_, h2, h3⟩
        · rw [h, he] at hne; cases hne
        · rw [h3, h2] at hne; cases hne

/-- captures-mode targets = occupied all-moves targets, every piece kind -/
theorem getMoves_caps_iff (piece : Piece) (row col : Nat) (b : Board) (hr : RingOK b) (ht : OnBoard ⟨row, col⟩) (pt : Point) :
    pt ∈ getMoves piece row col b .caps ↔
      pt ∈ getMoves piece row col b .all ∧ (b.get pt.row pt.col).isEmpty = false := by
  have slides : ∀ dirs : List (Int × Int), (∀ d ∈ dirs, UnitDir d) →
      (pt ∈ dirs.flatMap (slideDir piece row col b .caps) ↔
        pt ∈ dirs.flatMap (slideDir piece row col b .all) ∧ (b.get pt.row pt.col).isEmpty = false) := by
    intro dirs hd
    rw [List.mem_flatMap, List.mem_flatMap]
    constructor
    · rintro ⟨d, hdm, hx⟩
      obtain ⟨h1, h2⟩ := (slide_caps_iff piece row col b d hr ht (hd d hdm) pt).mp hx
      exact ⟨⟨d, hdm, h1⟩, h2⟩
    · rintro ⟨⟨d, hdm, hx⟩, h2⟩
      exact ⟨d, hdm, (slide_caps_iff piece row col b d hr ht (hd d hdm) pt).mpr ⟨hx, h2⟩⟩
  unfold getMoves
  cases piece.kind with
  | pawn => exact pawn_caps_iff piece row col b pt
  | knight => exact knight_caps_iff piece row col b pt
  | king => exact king_caps_iff piece row col b pt
  | rook => unfold rookMoves; exact slides _ (fun d hd => (rookDirs_H1 d hd).1)
  | bishop => unfold bishopMoves; exact slides _ (fun d hd => (bishopDirs_H1 d hd).1)
  | queen =>
    unfold queenMoves rookMoves bishopMoves
    rw [List.mem_append, List.mem_append, slides _ (fun d hd => (rookDirs_H1 d hd).1),
      slides _ (fun d hd => (bishopDirs_H1 d hd).1)]
    constructor
    · rintro (⟨a, b'⟩ | ⟨a, b'⟩)
      · exact ⟨Or.inl a, b'⟩
      · exact ⟨Or.inr a, b'⟩
    · rintro ⟨a | a, b'⟩
      · exact Or.inl ⟨a, b'⟩
      · exact Or.inr ⟨a, b'⟩

end Walleye
