/-
  Op generators for the correspondence / oracle runs.  Every random choice comes from one
  SplitMix64 state.  Positions are produced by the SPEC (`Spec.legalMoves`, `Spec.LegalPosition`),
  never by the engine or the model, so a broken generator in /repo cannot steer the inputs.
-/
import Walleye.Spec.Abs
import Walleye.Spec.CanonFen
import Walleye.Generated.Consts
open Walleye

/-- the `fen` operation for a SPEC position; the text sent is checked to be the canonical text that
    `Proofs/FenFaithful.fromFen_canonical` speaks about (otherwise a `canonbad` line, which every
    check reports) -/
def fenLine (P : Spec.Position) (half full : Nat) : String :=
  let t := Spec.toFen P half full
  if canonText P (toString half).toList (toString full).toList == t.toList then s!"fen {t}" else s!"canonbad {t}"

structure Rng where
  s : UInt64

def Rng.next (r : Rng) : UInt64 × Rng :=
  let s := r.s + 0x9E3779B97F4A7C15
  let z := (s ^^^ (s >>> 30)) * 0xBF58476D1CE4E5B9
  let z := (z ^^^ (z >>> 27)) * 0x94D049BB133111EB
  (z ^^^ (z >>> 31), ⟨s⟩)

abbrev G := StateM Rng

def below (n : Nat) : G Nat := do
  let r ← get
  let (v, r') := r.next
  set r'
  return if n == 0 then 0 else v.toNat % n

def chance (num den : Nat) : G Bool := do return (← below den) < num

def pick {α : Type} [Inhabited α] (l : List α) : G α := do
  let i ← below l.length
  return l.getD i default

/-- curated stems: start, the six perft positions, castling / en passant / promotion / mate neighbourhoods -/
def stems : List String := [
  "rnbqkbnr/pppppppp/8/8/8/8/PPPPPPPP/RNBQKBNR w KQkq - 0 1",
  "r3k2r/p1ppqpb1/bn2pnp1/3PN3/1p2P3/2N2Q1p/PPPBBPPP/R3K2R w KQkq - 0 1",
  "8/2p5/3p4/KP5r/1R3p1k/8/4P1P1/8 w - - 0 1",
  "r3k2r/Pppp1ppp/1b3nbN/nP6/BBP1P3/q4N2/Pp1P2PP/R2Q1RK1 w kq - 0 1",
  "r2q1rk1/pP1p2pp/Q4n2/bbp1p3/Np6/1B3NBn/pPPP1PPP/R3K2R b KQ - 0 1",
  "rnbq1k1r/pp1Pbppp/2p5/8/2B5/8/PPP1NnPP/RNBQK2R w KQ - 1 8",
  "r4rk1/1pp1qppp/p1np1n2/2b1p1B1/2B1P1b1/P1NP1N2/1PP1QPPP/R4RK1 w - - 0 10",
  -- castling with pieces near the king path, both sides
  "r3k2r/8/8/8/8/8/8/R3K2R w KQkq - 0 1",
  "r3k2r/8/8/8/8/8/8/R3K2R b KQkq - 0 1",
  "r3k2r/pppppppp/8/8/8/8/PPPPPPPP/R3K2R w KQkq - 0 1",
  "r3k2r/1b4b1/8/8/8/8/1B4B1/R3K2R w KQkq - 0 1",
  "r3k2r/8/5n2/8/8/5N2/8/R3K2R b KQkq - 3 9",
  "8/8/8/8/8/8/6k1/4K2R w K - 0 1",
  "4k2r/6K1/8/8/8/8/8/8 b k - 0 1",
  "r3k3/1K6/8/8/8/8/8/8 b q - 0 1",
  "8/8/8/8/8/8/1k6/R3K3 w Q - 0 1",
  -- en passant with pins along rank / diagonal / file
  "8/8/8/KPp4r/8/8/8/7k w - c6 0 2",
  "8/8/8/8/k2Pp2R/8/8/4K3 b - d3 0 1",
  "4k3/8/8/2pP4/8/8/8/B3K3 w - c6 0 2",
  "3k4/8/8/3pP3/8/8/8/3RK3 w - d6 0 2",
  "rnbqkbnr/ppp1p1pp/8/3pPp2/8/8/PPPP1PPP/RNBQKBNR w KQkq f6 0 3",
  "rnbqkbnr/pppp1ppp/8/8/3PpP2/8/PPP1P1PP/RNBQKBNR b KQkq f3 0 3",
  "4k3/8/8/8/1pPp4/8/8/4K3 b - c3 0 1",
  -- promotions, with and without capture, in corners
  "rn2k3/P1P5/8/8/8/8/p1p5/RN2K3 w Qq - 0 1",
  "rn2k3/P1P5/8/8/8/8/p1p5/RN2K3 b Qq - 0 1",
  "1n2k1nr/P5P1/8/8/8/8/p5p1/1N2K1NR w Kk - 0 1",
  "1n2k1nr/P5P1/8/8/8/8/p5p1/1N2K1NR b Kk - 0 1",
  "4k3/8/8/8/8/8/1p6/4K2R b K - 0 1",
  "r3k3/1P6/8/8/8/8/8/4K3 w q - 0 1",
  "1n2k3/P7/8/8/8/8/8/4K3 w - - 0 1",
  -- mate / stalemate neighbourhoods, double check
  "7k/5Q2/6K1/8/8/8/8/8 b - - 0 1",
  "7k/5Q2/5K2/8/8/8/8/8 w - - 0 1",
  "7k/8/5K2/6Q1/8/8/8/8 w - - 0 1",
  "k7/8/1K6/8/8/8/8/7R w - - 0 1",
  "6k1/5ppp/8/8/8/8/8/R3K3 w Q - 0 1",
  "4k3/8/8/8/8/5b2/3N4/r3K3 w - - 0 1",
  "8/8/8/8/8/2k5/2p5/2K5 w - - 0 1",
  "8/8/8/8/6Q1/8/k7/3K4 b - - 0 1",
  "8/8/6R1/8/8/2K5/8/r1k5 b - - 0 1",
  -- exposed kings, queens and rooks on open lines: perpetual check neighbourhoods
  "6k1/5p1p/8/8/8/8/r4r2/K3Q3 w - - 0 1",
  "3r2k1/5ppp/8/8/8/8/5PPP/3Q2K1 w - - 0 1",
  "6k1/8/8/8/8/8/2q5/K2R4 b - - 0 1",
  "k7/8/8/8/8/8/1r3QPP/6K1 w - - 0 1",
  "r5k1/5p2/6p1/8/8/8/Q4PPP/6K1 b - - 0 1",
  -- small endings
  "8/8/8/4k3/8/8/4P3/4K3 w - - 0 1",
  "8/8/8/8/8/4k3/4p3/4K3 b - - 0 1",
  "8/5k2/8/8/8/8/3R4/3K4 w - - 0 1",
  "8/8/4k3/8/8/3QK3/8/8 w - - 0 1"
]

def parseStem (s : String) : Spec.Position := (Spec.parseFen s).getD default

/-- only stems that the SPEC accepts as legal positions are used -/
def stemsOK : List String := stems.filter fun s => match Spec.parseFen s with
  | some P => Spec.LegalPosition P
  | none => false

/-- a random legal playout; returns the list of (move text) and final position; stops at terminal -/
def playout (P : Spec.Position) : Nat → G (List String × Spec.Position)
  | 0 => return ([], P)
  | n + 1 => do
    let ms := Spec.legalMoves P
    if ms.isEmpty then return ([], P)
    -- bias towards captures, promotions, castling and en passant so that rare rules are met
    let special := ms.filter fun m => (P.at m.dst).isSome || m.promo.isSome || Spec.isCastle P m || Spec.isEnPassant P m
    let m ← if !special.isEmpty && (← chance 1 3) then pick special else pick ms
    let (rest, Q) ← playout (Spec.apply P m) n
    return (Spec.moveText m :: rest, Q)

/-- ops for one game walked through GENERATED successors (`pick`), with a `pos` replay of every
    `stride`-th prefix through the text-move applier -/
def gameOps (startFen : String) (moves : List String) (perPly : List String) (posStride : Nat) : List String := Id.run do
  let mut out := [s!"fen {startFen}"]
  let mut pre : List String := []
  let mut i := 0
  for m in moves do
    out := out ++ perPly ++ [s!"pick {m}"]
    pre := pre ++ [m]
    i := i + 1
    if posStride > 0 && i % posStride == 0 then
      out := out ++ [s!"pos position fen {startFen} moves {" ".intercalate pre}"]
  out := out ++ perPly
  if !moves.isEmpty then
    out := out ++ [s!"pos position fen {startFen} moves {" ".intercalate moves}"]
  return out

def walkOps (games maxPlies : Nat) (perPly : List String) (posStride : Nat) : G (List String) := do
  let mut out : List String := []
  for gi in [0:games] do
    let stem := stemsOK.getD (gi % stemsOK.length) ""
    let P := parseStem stem
    let len ← below (maxPlies + 1)
    let (ms, _) ← playout P len
    out := out ++ gameOps stem ms perPly posStride
  return out

def kinds : List Kind := [.pawn, .knight, .bishop, .rook, .queen]

/-- a constructed random position (not reached by playouts): random material, any squares;
    retried until the SPEC accepts it as a legal position -/
def randomPosition : Nat → G (Option Spec.Position)
  | 0 => return none
  | tries + 1 => do
    let mut P : Spec.Position :=
      { cells := Array.replicate 64 none, side := .white, wks := false, wqs := false, bks := false, bqs := false, ep := none }
    let homey ← chance 1 3            -- keep kings and rooks at home so that rights are possible
    let wkSq : Spec.Sq ← if homey then pure ⟨4, 0⟩ else do pure ⟨← below 8, ← below 8⟩
    let bkSq : Spec.Sq ← if homey then pure ⟨4, 7⟩ else do pure ⟨← below 8, ← below 8⟩
    if wkSq == bkSq then return ← randomPosition tries
    P := (P.put wkSq (some ⟨.white, .king⟩)).put bkSq (some ⟨.black, .king⟩)
    if homey then
      if ← chance 2 3 then P := P.put ⟨7, 0⟩ (some ⟨.white, .rook⟩)
      if ← chance 2 3 then P := P.put ⟨0, 0⟩ (some ⟨.white, .rook⟩)
      if ← chance 2 3 then P := P.put ⟨7, 7⟩ (some ⟨.black, .rook⟩)
      if ← chance 2 3 then P := P.put ⟨0, 7⟩ (some ⟨.black, .rook⟩)
    let n ← below 25
    for _ in [0:n] do
      let s : Spec.Sq := ⟨← below 8, ← below 8⟩
      if (P.at s).isNone then
        let k ← pick kinds
        let c ← if ← chance 1 2 then pure Color.white else pure Color.black
        if !(k == .pawn && (s.rank == 0 || s.rank == 7)) then
          P := P.put s (some ⟨c, k⟩)
    let side ← if ← chance 1 2 then pure Color.white else pure Color.black
    P := { P with side := side }
    let has (s : Spec.Sq) (pc : Piece) : Bool := P.at s == some pc
    P := { P with
      wks := (← chance 1 2) && has ⟨4, 0⟩ ⟨.white, .king⟩ && has ⟨7, 0⟩ ⟨.white, .rook⟩
      wqs := (← chance 1 2) && has ⟨4, 0⟩ ⟨.white, .king⟩ && has ⟨0, 0⟩ ⟨.white, .rook⟩
      bks := (← chance 1 2) && has ⟨4, 7⟩ ⟨.black, .king⟩ && has ⟨7, 7⟩ ⟨.black, .rook⟩
      bqs := (← chance 1 2) && has ⟨4, 7⟩ ⟨.black, .king⟩ && has ⟨0, 7⟩ ⟨.black, .rook⟩ }
    -- en passant: pick a pawn of the side that just moved standing on its 4th rank with both squares behind empty
    if ← chance 1 3 then
      let mover := side.opp
      let r4 := match mover with | .white => 3 | .black => 4
      let cands := (List.range 8).filter fun f =>
        P.at ⟨f, r4⟩ == some ⟨mover, .pawn⟩ &&
        (P.at ⟨f, (((r4 : Int) - Spec.fwd mover).toNat)⟩).isNone &&
        (P.at ⟨f, (((r4 : Int) - 2 * Spec.fwd mover).toNat)⟩).isNone
      if !cands.isEmpty then
        let f ← pick cands
        P := { P with ep := some ⟨f, (((r4 : Int) - Spec.fwd mover).toNat)⟩ }
    if Spec.LegalPosition P then return some P else randomPosition tries

def fenPosOps (n : Nat) (perPos : List String) : G (List String) := do
  let mut out : List String := []
  for _ in [0:n] do
    match ← randomPosition 50 with
    | some P =>
      let half ← below 100
      let full ← pick [1, 2, 40, 255, 256, 300, 65535, 1000000]
      out := out ++ [fenLine P half full] ++ perPos
    | none => pure ()
  return out

/-- castling geometry lattice: K+R+R at home with a subset of rights, the enemy king on every
    square and optionally one extra enemy piece of every kind on every square -/
def castleLattice (stride : Nat) : G (List String) := do
  let mut out : List String := []
  let mut idx := 0
  for c in [Color.white, Color.black] do
    let hr := Spec.homeRank c
    for ekr in [0:8] do
      for ekf in [0:8] do
        let base : Spec.Position :=
          { cells := Array.replicate 64 none, side := c, wks := c == .white, wqs := c == .white,
            bks := c == .black, bqs := c == .black, ep := none }
        let base := ((base.put ⟨4, hr⟩ (some ⟨c, .king⟩)).put ⟨0, hr⟩ (some ⟨c, .rook⟩)).put ⟨7, hr⟩ (some ⟨c, .rook⟩)
        if (base.at ⟨ekf, ekr⟩).isNone then
          let P0 := base.put ⟨ekf, ekr⟩ (some ⟨c.opp, .king⟩)
          if Spec.LegalPosition P0 then
            out := out ++ [fenLine P0 0 1, "gen all"]
          for k in kinds do
            for xr in [0:8] do
              for xf in [0:8] do
                idx := idx + 1
                if idx % stride == 0 then
                  if (P0.at ⟨xf, xr⟩).isNone && !(k == .pawn && (xr == 0 || xr == 7)) then
                    let P := P0.put ⟨xf, xr⟩ (some ⟨c.opp, k⟩)
                    if Spec.LegalPosition P then
                      out := out ++ [fenLine P 0 1, "gen all"]
  return out

/-- check detection lattice: a king, one enemy piece of every kind on every square, optionally a
    blocker of either colour; both colours; legality of the turn is irrelevant (C06 quantifier) -/
def checkLattice (stride : Nat) : G (List String) := do
  let mut out : List String := []
  let mut idx := 0
  let allKinds : List Kind := [.pawn, .knight, .bishop, .rook, .queen]
  for c in [Color.white, Color.black] do
    for ks in Spec.allSquares do
      for ak in allKinds do
        for as in Spec.allSquares do
          if as != ks && !(ak == .pawn && (as.rank == 0 || as.rank == 7)) then
            idx := idx + 1
            if idx % stride == 0 then
              -- enemy king far away from our king (a corner not adjacent), blocker random
              let ekCands := Spec.allSquares.filter fun s => s != ks && s != as &&
                (max (Spec.iabs ((s.file : Int) - ks.file)) (Spec.iabs ((s.rank : Int) - ks.rank)) > 1)
              let ek ← pick ekCands
              let mut P : Spec.Position :=
                { cells := Array.replicate 64 none, side := c, wks := false, wqs := false, bks := false, bqs := false, ep := none }
              P := ((P.put ks (some ⟨c, .king⟩)).put ek (some ⟨c.opp, .king⟩)).put as (some ⟨c.opp, ak⟩)
              if ← chance 2 3 then
                let bs : Spec.Sq := ⟨← below 8, ← below 8⟩
                if (P.at bs).isNone then
                  let bk ← pick [Kind.knight, Kind.bishop, Kind.rook, Kind.queen]
                  let bc ← if ← chance 1 2 then pure c else pure c.opp
                  P := P.put bs (some ⟨bc, bk⟩)
              out := out ++ [fenLine P 0 1, "chk"]
  -- the two kings next to each other (all 8 neighbours) and at distance two (controls): exhaustive
  for c in [Color.white, Color.black] do
    for ks in Spec.allSquares do
      for df in [-2, -1, 0, 1, 2] do
        for dr in [-2, -1, 0, 1, 2] do
          let f : Int := (ks.file : Int) + df
          let r : Int := (ks.rank : Int) + dr
          if (df != 0 || dr != 0) && 0 ≤ f && f < 8 && 0 ≤ r && r < 8 then
            let P : Spec.Position :=
              { cells := Array.replicate 64 none, side := c, wks := false, wqs := false, bks := false, bqs := false, ep := none }
            let P := (P.put ks (some ⟨c, .king⟩)).put ⟨f.toNat, r.toNat⟩ (some ⟨c.opp, .king⟩)
            out := out ++ [fenLine P 0 1, "chk"]
  return out

/-- capture chains through capture-only successors -/
def capChain (P : Spec.Position) : Nat → G (List String)
  | 0 => return ["gen cap"]
  | n + 1 => do
    let caps := (Spec.legalMoves P).filter fun m => (P.at m.dst).isSome || Spec.isEnPassant P m
    if caps.isEmpty then return ["gen cap"]
    let m ← pick caps
    let rest ← capChain (Spec.apply P m) n
    return ["gen cap", s!"pickc {Spec.moveText m}"] ++ rest

def capOps (games maxPlies depth : Nat) : G (List String) := do
  let mut out : List String := []
  for gi in [0:games] do
    let stem := stemsOK.getD (gi % stemsOK.length) ""
    let P := parseStem stem
    let len ← below (maxPlies + 1)
    let (ms, Q) ← playout P len
    out := out ++ [s!"fen {stem}"] ++ ms.map (fun m => s!"pick {m}") ++ (← capChain Q depth)
  return out

def isSpecial (P : Spec.Position) (m : Spec.Move) : Bool :=
  m.promo.isSome || Spec.isCastle P m || Spec.isEnPassant P m ||
  (P.at m.src == some ⟨P.side, .pawn⟩ && Spec.iabs ((m.dst.rank : Int) - m.src.rank) == 2)

/-- exhaustive two-ply chains through generated successors from every stem: every pair (m1, m2)
    where at least one of the two is a promotion / castling / en passant / double step.
    (Fields inherited from the move before — e.g. a promotion one ply earlier — need exactly this.) -/
def pairOps (stride : Nat) : List String := Id.run do
  let mut out : List String := []
  let mut idx := 0
  for stem in stemsOK do
    let P := parseStem stem
    for m1 in Spec.legalMoves P do
      let Q := Spec.apply P m1
      let s1 := isSpecial P m1
      out := out ++ [s!"fen {stem}", s!"pick {Spec.moveText m1}", "fmt", "gen all", "gen cap"]
      for m2 in Spec.legalMoves Q do
        if s1 || isSpecial Q m2 then
          idx := idx + 1
          if idx % stride == 0 then
            out := out ++ [s!"fen {stem}", s!"pick {Spec.moveText m1}", s!"pick {Spec.moveText m2}", "fmt", "gen all", "gen cap",
                           s!"pos position fen {stem} moves {Spec.moveText m1} {Spec.moveText m2}"]
  return out

/-- mirror: ranks flipped, colours swapped, side swapped -/
def mirrorPos (P : Spec.Position) : Spec.Position :=
  { P with
    cells := Array.ofFn (n := 64) fun i =>
      (P.at ⟨i.val % 8, 7 - i.val / 8⟩).map fun pc => ⟨pc.color.opp, pc.kind⟩
    side := P.side.opp, wks := P.bks, wqs := P.bqs, bks := P.wks, bqs := P.wqs,
    ep := P.ep.map fun e => ⟨e.file, 7 - e.rank⟩ }

/-- arbitrary placement (legal or not): up to `n` random pieces of any kind anywhere -/
def randomPlacement (n : Nat) : G Spec.Position := do
  let mut P : Spec.Position :=
    { cells := Array.replicate 64 none, side := .white, wks := false, wqs := false, bks := false, bqs := false, ep := none }
  for _ in [0:n] do
    let s : Spec.Sq := ⟨← below 8, ← below 8⟩
    let k ← pick [Kind.pawn, .knight, .bishop, .rook, .queen, .queen, .king]
    let c ← if ← chance 1 2 then pure Color.white else pure Color.black
    P := P.put s (some ⟨c, k⟩)
  let side ← if ← chance 1 2 then pure Color.white else pure Color.black
  return { P with side := side }

def evalRelLine (P : Spec.Position) (other : Spec.Position) : String :=
  let flip := { P with side := P.side.opp }
  s!"evalrel {Spec.toFen P 0 1}|{Spec.toFen (mirrorPos P) 0 1}|{Spec.toFen flip 0 1}|{Spec.toFen other 7 300}"

def evalOps (n : Nat) : G (List String) := do
  let mut out : List String := []
  -- single piece basis, exhaustive: 12 pieces x 64 squares
  for c in [Color.white, Color.black] do
    for k in [Kind.pawn, .knight, .bishop, .rook, .queen, .king] do
      for s in Spec.allSquares do
        let P : Spec.Position :=
          { cells := Array.replicate 64 none, side := .white, wks := false, wqs := false, bks := false, bqs := false, ep := none }
        let P := P.put s (some ⟨c, k⟩)
        out := out ++ [evalRelLine P { P with wks := true, bqs := true }]
  for _ in [0:n] do
    let cnt ← pick [1, 2, 3, 5, 8, 12, 16, 24, 32, 40, 64]
    let P ← randomPlacement cnt
    let epf ← below 8
    let hasEp ← chance 1 2
    let other := { P with wks := ← chance 1 2, wqs := ← chance 1 2, bks := ← chance 1 2, bqs := ← chance 1 2,
                          ep := if hasEp then some ⟨epf, 2⟩ else none }
    out := out ++ [evalRelLine P other]
  return out

/-- positions for search ops: a stem, a random legal playout, then the search op(s) -/
def searchOps (n maxPlies : Nat) (sops : List String) : G (List String) := do
  let mut out : List String := []
  for gi in [0:n] do
    let stem := stemsOK.getD (gi % stemsOK.length) ""
    let P := parseStem stem
    let len ← below (maxPlies + 1)
    let (ms, Q) ← playout P len
    if !(Spec.legalMoves Q).isEmpty then
      let mv := if ms.isEmpty then "" else " moves " ++ " ".intercalate ms
      out := out ++ [s!"pos position fen {stem}{mv}"] ++ sops
  return out

def quietMove (P : Spec.Position) (m : Spec.Move) : Bool :=
  (P.at m.dst).isNone && m.promo.isNone && !Spec.isCastle P m &&
  (match P.at m.src with | some pc => pc.kind != .pawn | none => false)

/-- a reversible four-move cycle from `P` (m1, m2, m1⁻¹, m2⁻¹), if one exists -/
def findCycle (P : Spec.Position) : G (Option (List Spec.Move)) := do
  let c1 := (Spec.legalMoves P).filter (quietMove P)
  if c1.isEmpty then return none
  -- prefer cycles that start with a check (perpetual-check shape): the repeated position is then
  -- one in which the side to move is in check, i.e. a check-extended horizon node in the search
  let checking := c1.filter fun m => let Q := Spec.apply P m; Spec.inCheck Q Q.side
  let m1 ← if !checking.isEmpty && (← chance 2 3) then pick checking else pick c1
  let P1 := Spec.apply P m1
  let c2 := (Spec.legalMoves P1).filter (quietMove P1)
  if c2.isEmpty then return none
  let m2 ← pick c2
  let P2 := Spec.apply P1 m2
  let r1 : Spec.Move := ⟨m1.dst, m1.src, none⟩
  let r2 : Spec.Move := ⟨m2.dst, m2.src, none⟩
  if !(Spec.legal P2 r1 && quietMove P2 r1) then return none
  let P3 := Spec.apply P2 r1
  if !(Spec.legal P3 r2 && quietMove P3 r2) then return none
  let P4 := Spec.apply P3 r2
  -- rights may have changed (king/rook shuffles): require a true repetition
  if Spec.coreText P4 != Spec.coreText P then return none
  return some [m1, m2, r1, r2]

/-- histories with repetitions: playout, then a 4-cycle repeated r times (optionally cut short) -/
def repOps (n maxPlies maxRep : Nat) (sops : List String) : G (List String) := do
  let mut out : List String := []
  for gi in [0:n] do
    let stem := stemsOK.getD (gi % stemsOK.length) ""
    let P := parseStem stem
    let len ← below (maxPlies + 1)
    let (ms, Q) ← playout P len
    -- make sure the cycle does not start from a position carrying an en passant target
    match ← findCycle Q with
    | none => pure ()
    | some cyc =>
      let r ← below (maxRep + 1)
      let cut ← below 4
      let cycT := cyc.map Spec.moveText
      let reps := ((List.replicate r cycT).flatten ++ cycT.take cut)
      let all := ms ++ reps
      if !all.isEmpty then
        out := out ++ [s!"pos position fen {stem} moves {" ".intercalate all}", "gen all"] ++ sops
  return out

def isMateNow (P : Spec.Position) : Bool := Spec.inCheck P P.side && (Spec.legalMoves P).isEmpty

/-- some legal move mates at once (only checking moves need the expensive reply enumeration) -/
def hasMateInOne (P : Spec.Position) : Bool :=
  (Spec.legalMoves P).any fun m =>
    let Q := Spec.apply P m
    Spec.inCheck Q Q.side && (Spec.legalMoves Q).isEmpty

def materialSets : List (List Piece) := [
  [⟨.white, .queen⟩], [⟨.white, .rook⟩], [⟨.white, .rook⟩, ⟨.white, .rook⟩], [⟨.white, .queen⟩, ⟨.black, .pawn⟩],
  [⟨.white, .rook⟩, ⟨.black, .pawn⟩, ⟨.black, .pawn⟩], [⟨.white, .bishop⟩, ⟨.white, .knight⟩, ⟨.black, .pawn⟩],
  [⟨.white, .queen⟩, ⟨.black, .rook⟩], [⟨.white, .pawn⟩, ⟨.white, .pawn⟩, ⟨.black, .pawn⟩],
  [⟨.white, .queen⟩, ⟨.white, .knight⟩, ⟨.black, .rook⟩, ⟨.black, .pawn⟩, ⟨.black, .pawn⟩],
  [⟨.white, .rook⟩, ⟨.white, .bishop⟩, ⟨.black, .knight⟩, ⟨.black, .pawn⟩, ⟨.black, .pawn⟩, ⟨.black, .pawn⟩],
  [⟨.white, .queen⟩, ⟨.white, .rook⟩, ⟨.black, .queen⟩, ⟨.black, .pawn⟩, ⟨.black, .pawn⟩, ⟨.white, .pawn⟩]]

/-- positions near mate / stalemate: small material, enemy king pushed to the rim half of the time;
    kept when the side to move has a mate in one, is in check, or has at most three legal moves
    (or unconditionally with probability 1/8) -/
def mateNeighbourhood : Nat → G (Option Spec.Position)
  | 0 => return none
  | tries + 1 => do
    let mat ← pick materialSets
    let swap ← chance 1 2
    let mut P : Spec.Position :=
      { cells := Array.replicate 64 none, side := .white, wks := false, wqs := false, bks := false, bqs := false, ep := none }
    let rim ← chance 1 2
    let bk : Spec.Sq ← if rim then do
        let f ← below 8
        let edge ← below 4
        pure (match edge with | 0 => ⟨f, 0⟩ | 1 => ⟨f, 7⟩ | 2 => ⟨0, f⟩ | _ => ⟨7, f⟩)
      else do pure ⟨← below 8, ← below 8⟩
    let wk : Spec.Sq := ⟨← below 8, ← below 8⟩
    if wk == bk then return ← mateNeighbourhood tries
    let col (c : Color) : Color := if swap then c.opp else c
    P := (P.put wk (some ⟨col .white, .king⟩)).put bk (some ⟨col .black, .king⟩)
    for pc in mat do
      let s : Spec.Sq := ⟨← below 8, ← below 8⟩
      if (P.at s).isNone && !(pc.kind == .pawn && (s.rank == 0 || s.rank == 7)) then
        P := P.put s (some ⟨col pc.color, pc.kind⟩)
    let side ← if ← chance 2 3 then pure (col .white) else pure (col .black)
    P := { P with side := side }
    if !Spec.LegalPosition P then return ← mateNeighbourhood tries
    let ms := Spec.legalMoves P
    if ms.isEmpty then return ← mateNeighbourhood tries
    let keepAnyway ← chance 1 8
    if keepAnyway || ms.length ≤ 3 || Spec.inCheck P P.side || hasMateInOne P then return some P
    else mateNeighbourhood tries

def mateOps (n : Nat) (sops : List String) : G (List String) := do
  let mut out : List String := []
  for _ in [0:n] do
    match ← mateNeighbourhood 200 with
    | some P => out := out ++ [s!"pos position fen {Spec.toFen P 0 1}"] ++ sops
    | none => pure ()
  return out

/-- heavy pieces against a bare king, strong side to move, no mate in one: positions in which a
    mate in two or three is near and every defence matters (false mate claims come from searches that
    drop a defence) -/
def mateSoonPosition : Nat → G (Option Spec.Position)
  | 0 => return none
  | tries + 1 => do
    let mat ← pick [[Kind.queen], [Kind.rook], [Kind.rook, Kind.rook], [Kind.queen, Kind.rook], [Kind.queen, Kind.queen]]
    let strong ← if ← chance 1 2 then pure Color.white else pure Color.black
    let mut P : Spec.Position :=
      { cells := Array.replicate 64 none, side := strong, wks := false, wqs := false, bks := false, bqs := false, ep := none }
    let f ← below 8
    let edge ← below 4
    let wkr : Spec.Sq := match edge with | 0 => ⟨f, 0⟩ | 1 => ⟨f, 7⟩ | 2 => ⟨0, f⟩ | _ => ⟨7, f⟩
    let sk : Spec.Sq := ⟨← below 8, ← below 8⟩
    if sk == wkr then return ← mateSoonPosition tries
    P := (P.put sk (some ⟨strong, .king⟩)).put wkr (some ⟨strong.opp, .king⟩)
    for k in mat do
      let s : Spec.Sq := ⟨← below 8, ← below 8⟩
      if (P.at s).isNone then P := P.put s (some ⟨strong, k⟩)
    if Spec.LegalPosition P && !(Spec.legalMoves P).isEmpty && !hasMateInOne P then return some P
    else mateSoonPosition tries

def mateSoonOps (n : Nat) (sops : List String) : G (List String) := do
  let mut out : List String := []
  for _ in [0:n] do
    match ← mateSoonPosition 200 with
    | some P => out := out ++ [s!"pos position fen {Spec.toFen P 0 1}"] ++ sops
    | none => pure ()
  return out

/-- material for the retro-mate generator: every pair of "at most one minor piece each" and a few
    heavier sets — mates that need self-blocks and rim geometry, rare among random placements -/
def retroSets : List (List Piece) := [
  [⟨.white, .knight⟩, ⟨.black, .knight⟩], [⟨.white, .knight⟩, ⟨.black, .bishop⟩],
  [⟨.white, .bishop⟩, ⟨.black, .knight⟩], [⟨.white, .bishop⟩, ⟨.black, .bishop⟩],
  [⟨.white, .knight⟩, ⟨.black, .pawn⟩], [⟨.white, .bishop⟩, ⟨.black, .pawn⟩],
  [⟨.white, .knight⟩, ⟨.white, .knight⟩], [⟨.white, .bishop⟩, ⟨.white, .knight⟩], [⟨.white, .bishop⟩, ⟨.white, .bishop⟩],
  [⟨.white, .knight⟩, ⟨.black, .rook⟩], [⟨.white, .bishop⟩, ⟨.black, .rook⟩, ⟨.black, .pawn⟩],
  [⟨.white, .rook⟩, ⟨.black, .bishop⟩], [⟨.white, .queen⟩, ⟨.black, .knight⟩], [⟨.white, .pawn⟩, ⟨.black, .knight⟩],
  [⟨.white, .rook⟩], [⟨.white, .queen⟩]]

def near (s : Spec.Sq) (dist : Nat) : G Spec.Sq := do
  let df ← below (2 * dist + 1)
  let dr ← below (2 * dist + 1)
  let f : Int := (s.file : Int) + df - dist
  let r : Int := (s.rank : Int) + dr - dist
  pure ⟨(max 0 (min 7 f)).toNat, (max 0 (min 7 r)).toNat⟩

/-- a position in which the side to move is checkmated, built by biased placement (mated king on
    the rim or in a corner, its own pieces next to it, the mating king close) -/
def matedPosition (mat : List Piece) : Nat → G (Option Spec.Position)
  | 0 => return none
  | tries + 1 => do
    let swap ← chance 1 2
    let col (c : Color) : Color := if swap then c.opp else c
    let corner ← chance 1 2
    let bk : Spec.Sq ← if corner then do
        let k ← below 4
        pure (match k with | 0 => ⟨0, 0⟩ | 1 => ⟨7, 0⟩ | 2 => ⟨0, 7⟩ | _ => ⟨7, 7⟩)
      else do
        let f ← below 8
        let edge ← below 4
        pure (match edge with | 0 => ⟨f, 0⟩ | 1 => ⟨f, 7⟩ | 2 => ⟨0, f⟩ | _ => ⟨7, f⟩)
    let wk ← near bk 2
    if wk == bk then return ← matedPosition mat tries
    let mut P : Spec.Position :=
      { cells := Array.replicate 64 none, side := col .black, wks := false, wqs := false, bks := false, bqs := false, ep := none }
    P := (P.put wk (some ⟨col .white, .king⟩)).put bk (some ⟨col .black, .king⟩)
    for pc in mat do
      let s ← if pc.color == .black then near bk 1 else (do
        if ← chance 1 2 then near bk 3 else pure ⟨← below 8, ← below 8⟩)
      if (P.at s).isNone && !(pc.kind == .pawn && (s.rank == 0 || s.rank == 7)) then
        P := P.put s (some ⟨col pc.color, pc.kind⟩)
    if !Spec.inCheck P P.side then return ← matedPosition mat tries
    if !Spec.LegalPosition P then return ← matedPosition mat tries
    if (Spec.legalMoves P).isEmpty then return some P else matedPosition mat tries

/-- take back the mating move: every position from which a quiet, non-promoting move of a piece of
    the mating side produces exactly the mated position -/
def retractions (P : Spec.Position) : List Spec.Position :=
  let mover := P.side.opp
  Spec.allSquares.flatMap fun s =>
    match P.at s with
    | some pc =>
      if pc.color == mover then
        Spec.allSquares.filterMap fun s0 =>
          if (P.at s0).isSome then none
          else
            let P0 : Spec.Position := { ((P.put s none).put s0 (some pc)) with side := mover }
            let m : Spec.Move := ⟨s0, s, none⟩
            if Spec.LegalPosition P0 && Spec.legal P0 m && (Spec.apply P0 m).cells == P.cells then some P0 else none
      else []
    | none => []

/-- positions with a mate in one obtained by retraction from generated mates -/
def retroMateOps (n : Nat) (sops : List String) : G (List String) := do
  let mut out : List String := []
  for i in [0:n] do
    match ← matedPosition (retroSets.getD (i % retroSets.length) []) 3000 with
    | some P =>
      let rs := retractions P
      if !rs.isEmpty then
        let P0 ← pick rs
        out := out ++ [s!"pos position fen {Spec.toFen P0 0 1}"] ++ sops
    | none => pure ()
  return out

/-- queen-dense positions: `q` queens a side (plus kings) on random squares, accepted when the SPEC
    calls the position legal and the side to move has a move.  Their capture search is enormous
    (mutual captures everywhere), which is what the latency clause of C08 needs to see. -/
def densePosition (q : Nat) : Nat → G (Option Spec.Position)
  | 0 => return none
  | tries + 1 => do
    let mut P : Spec.Position :=
      { cells := Array.replicate 64 none, side := .white, wks := false, wqs := false, bks := false, bqs := false, ep := none }
    let wk : Spec.Sq := ⟨← below 8, ← below 8⟩
    let bk : Spec.Sq := ⟨← below 8, ← below 8⟩
    if wk == bk then return ← densePosition q tries
    P := (P.put wk (some ⟨.white, .king⟩)).put bk (some ⟨.black, .king⟩)
    for i in [0:2 * q] do
      let s : Spec.Sq := ⟨← below 8, ← below 8⟩
      if (P.at s).isNone then
        P := P.put s (some ⟨if i % 2 == 0 then .white else .black, .queen⟩)
    let side ← if ← chance 1 2 then pure Color.white else pure Color.black
    P := { P with side := side }
    if Spec.LegalPosition P && !(Spec.legalMoves P).isEmpty then return some P else densePosition q tries

def denseOps (n q : Nat) (sops : List String) : G (List String) := do
  let mut out : List String := []
  for _ in [0:n] do
    match ← densePosition q 400 with
    | some P => out := out ++ [s!"pos position fen {Spec.toFen P 0 1}"] ++ sops
    | none => pure ()
  return out

/-- positions in which the side to move has exactly `want` legal moves (forced replies), collected
    along random playouts; each is emitted with its game history -/
def fewMovesOps (n want maxPlies : Nat) (sops : List String) : G (List String) := do
  let mut out : List String := []
  let mut found := 0
  for gi in [0:n * 60] do
    if found < n then
      let stem := stemsOK.getD (gi % stemsOK.length) ""
      let mut P := parseStem stem
      let mut ms : List String := []
      for _ in [0:maxPlies] do
        let lm := Spec.legalMoves P
        if !lm.isEmpty && found < n then
          if lm.length == want && !ms.isEmpty then
            out := out ++ [s!"pos position fen {stem} moves {" ".intercalate ms}"] ++ sops
            found := found + 1
          -- prefer checking moves: forced replies come after checks
          let checks := lm.filter fun m => let Q := Spec.apply P m; Spec.inCheck Q Q.side
          let m ← if !checks.isEmpty && (← chance 2 3) then pick checks else pick lm
          P := Spec.apply P m
          ms := ms ++ [Spec.moveText m]
  return out

/-- hand-built lattices of mutually protected queens: their capture search takes from half a second
    to minutes on the engine, which never looks at the clock inside `quiesce` -/
def heavyStems : List String := [
  "r5k1/2q1q1q1/3Q1Q1Q/2q1q1q1/3Q1Q1Q/1np5/8/K7 w - - 0 1",
  "kq1Q1q1Q/qq2Q3/2Q1q2Q/1q4Q1/3q1Q2/4q1q1/5nPP/6RK w - - 0 1",
  "r5k1/2q1q1q1/3Q1Q1Q/2q1q1q1/3Q1Q1Q/1np5/8/K7 b - - 0 1"]

/-- variants of the heavy stems (colour mirror, up to two queens removed, one random legal move
    played), kept when the SPEC calls them legal and the side to move has a move -/
def heavyOps (n : Nat) (sops : List String) : G (List String) := do
  let mut out : List String := []
  for gi in [0:n * 20] do
    if out.length < n * (1 + sops.length) then
      let stem := heavyStems.getD (gi % heavyStems.length) ""
      match Spec.parseFen stem with
      | none => pure ()
      | some P0 =>
        let mut P := P0
        if ← chance 1 2 then P := mirrorPos P
        let drop ← below 3
        for _ in [0:drop] do
          let s : Spec.Sq := ⟨← below 8, ← below 8⟩
          match P.at s with
          | some pc => if pc.kind == .queen then P := P.put s none
          | none => pure ()
        if gi ≥ heavyStems.length && (← chance 1 2) then
          let lm := Spec.legalMoves P
          if Spec.LegalPosition P && !lm.isEmpty then P := Spec.apply P (← pick lm)
        if Spec.LegalPosition P && !(Spec.legalMoves P).isEmpty then
          out := out ++ [s!"pos position fen {Spec.toFen P 0 1}"] ++ sops
  return out

/-- SPECIAL MOVES THAT GIVE CHECK, followed by `chk` / `gen` on the GENERATED successor (a board that
    carries a move descriptor): castling whose rook gives check (enemy king on every square), and en
    passant captures that uncover a line through the square of the captured pawn or of the capturing
    pawn (slider and enemy king on every pair of squares of every such line); both colours.
    Only items for which the SPEC says "legal position, legal move, check afterwards" are kept, plus
    every 5th non-checking one as a control. -/
def chkMoveOps (stride : Nat) (perItem : List String) : G (List String) := do
  let mut out : List String := []
  let mut idx := 0
  let empty : Spec.Position :=
    { cells := Array.replicate 64 none, side := .white, wks := false, wqs := false, bks := false, bqs := false, ep := none }
  -- every item is emitted twice: as it is, and with BYSTANDERS of the side that gets checked (a
  -- knight and a rook on the first free squares that keep everything legal): their moves do not
  -- answer the check, so a generator that misjudges "in check" on the successor offers them
  let withBystanders (P : Spec.Position) (m : Spec.Move) : Option Spec.Position := Id.run do
    let victim := P.side.opp
    let mut Q := P
    let mut placed := 0
    for k in [Kind.knight, Kind.rook] do
      let mut done := false
      for i in [0:64] do
        let s : Spec.Sq := ⟨(i * 5 + 3) % 8, (i * 3 + (if victim == Color.white then 1 else 6)) % 8⟩
        if !done && (Q.at s).isNone && s != m.dst && s != m.src && P.ep != some s then
          let Q' := Q.put s (some ⟨victim, k⟩)
          if Spec.LegalPosition Q' && Spec.legal Q' m && (let R := Spec.apply Q' m; Spec.inCheck R R.side) then
            Q := Q'
            done := true
            placed := placed + 1
    return if placed > 0 then some Q else none
  let emit (P : Spec.Position) (m : Spec.Move) (keepQuiet : Bool) : List String :=
    if Spec.LegalPosition P && Spec.legal P m then
      let Q := Spec.apply P m
      if Spec.inCheck Q Q.side || keepQuiet then
        [fenLine P 0 1, s!"pick {Spec.moveText m}"] ++ perItem ++
          (if Spec.inCheck Q Q.side then
            match withBystanders P m with
            | some P' => [fenLine P' 0 1, s!"pick {Spec.moveText m}"] ++ perItem
            | none => []
           else [])
      else []
    else []
  -- (A) castling with check
  for c in [Color.white, Color.black] do
    let hr := Spec.homeRank c
    for ks in [true, false] do
      for ekr in [0:8] do
        for ekf in [0:8] do
          let rf := if ks then 7 else 0
          let base := { empty with side := c, wks := c == Color.white && ks, wqs := c == Color.white && !ks,
                                   bks := c == Color.black && ks, bqs := c == Color.black && !ks }
          let base := (base.put ⟨4, hr⟩ (some ⟨c, .king⟩)).put ⟨rf, hr⟩ (some ⟨c, .rook⟩)
          if (base.at ⟨ekf, ekr⟩).isNone then
            let P := base.put ⟨ekf, ekr⟩ (some ⟨c.opp, .king⟩)
            let m : Spec.Move := ⟨⟨4, hr⟩, ⟨if ks then 6 else 2, hr⟩, none⟩
            idx := idx + 1
            out := out ++ emit P m (idx % 5 == 0)
  -- (B) en passant uncovering a line
  let dirs : List (Int × Int) := [(1, 0), (-1, 0), (0, 1), (0, -1), (1, 1), (1, -1), (-1, 1), (-1, -1)]
  for c in [Color.white, Color.black] do
    let r5 : Nat := if c == Color.white then 4 else 3
    let r6 : Nat := if c == Color.white then 5 else 2
    for f in [1, 4, 6] do
      for side in [true, false] do
        let vf : Nat := if side then f + 1 else f - 1
        let o : Spec.Sq := ⟨f, r5⟩
        let v : Spec.Sq := ⟨vf, r5⟩
        let tgt : Spec.Sq := ⟨vf, r6⟩
        let base := { empty with side := c, ep := some tgt }
        let base := (base.put o (some ⟨c, .pawn⟩)).put v (some ⟨c.opp, .pawn⟩)
        let m : Spec.Move := ⟨o, tgt, none⟩
        for z in [o, v] do
          for d in dirs do
            for i in [1:8] do
              for j in [1:8] do
                let sf : Int := z.file + i * d.1
                let sr : Int := z.rank + i * d.2
                let kf : Int := (z.file : Int) - j * d.1
                let kr : Int := (z.rank : Int) - j * d.2
                if 0 ≤ sf && sf < 8 && 0 ≤ sr && sr < 8 && 0 ≤ kf && kf < 8 && 0 ≤ kr && kr < 8 then
                  idx := idx + 1
                  if idx % stride == 0 then
                    let ssq : Spec.Sq := ⟨sf.toNat, sr.toNat⟩
                    let ksq : Spec.Sq := ⟨kf.toNat, kr.toNat⟩
                    let kind : Kind := if d.1 != 0 && d.2 != 0 then (if idx % 2 == 0 then .bishop else .queen)
                                       else (if idx % 2 == 0 then .rook else .queen)
                    if (base.at ssq).isNone && (base.at ksq).isNone && ssq != tgt && ksq != tgt then
                      let P1 := (base.put ssq (some ⟨c, kind⟩)).put ksq (some ⟨c.opp, .king⟩)
                      -- the mover's own king: first corner square that gives a legal position
                      for own in [(⟨0, 0⟩ : Spec.Sq), ⟨7, 0⟩, ⟨0, 7⟩, ⟨7, 7⟩, ⟨3, 0⟩, ⟨3, 7⟩] do
                        if (P1.at own).isNone && own != tgt then
                          let P := P1.put own (some ⟨c, .king⟩)
                          let items := emit P m (idx % 7 == 0)
                          if !items.isEmpty then
                            out := out ++ items
                            break
  return out

/-- zugzwang-prone small endings (kings close to each other, pawns, at most one minor or rook):
    where null-move pruning is most likely to go wrong -/
def zugPosition : Nat → G (Option Spec.Position)
  | 0 => return none
  | tries + 1 => do
    let mat ← pick [[(Color.white, Kind.pawn)], [(Color.white, Kind.pawn), (Color.black, Kind.pawn)],
      [(Color.white, Kind.pawn), (Color.white, Kind.pawn)], [(Color.white, Kind.pawn), (Color.white, Kind.pawn), (Color.black, Kind.pawn)],
      [(Color.white, Kind.rook)], [(Color.white, Kind.rook), (Color.black, Kind.pawn)], [(Color.white, Kind.knight), (Color.white, Kind.pawn)],
      [(Color.white, Kind.bishop), (Color.white, Kind.pawn)], [(Color.white, Kind.queen), (Color.black, Kind.pawn)],
      [(Color.white, Kind.rook), (Color.black, Kind.knight)], [(Color.white, Kind.pawn), (Color.black, Kind.pawn), (Color.black, Kind.pawn)],
      [(Color.white, Kind.queen)], [(Color.white, Kind.rook), (Color.white, Kind.pawn), (Color.black, Kind.rook)]]
    let swap ← chance 1 2
    let col (c : Color) : Color := if swap then c.opp else c
    let mut P : Spec.Position :=
      { cells := Array.replicate 64 none, side := .white, wks := false, wqs := false, bks := false, bqs := false, ep := none }
    let f ← below 8
    let edge ← below 4
    let bk : Spec.Sq := match edge with | 0 => ⟨f, 0⟩ | 1 => ⟨f, 7⟩ | 2 => ⟨0, f⟩ | _ => ⟨7, f⟩
    let wk ← near bk 2
    if wk == bk then return ← zugPosition tries
    P := (P.put wk (some ⟨col .white, .king⟩)).put bk (some ⟨col .black, .king⟩)
    for (c, k) in mat do
      let s ← if ← chance 2 3 then near bk 3 else pure (⟨← below 8, ← below 8⟩ : Spec.Sq)
      if (P.at s).isNone && !(k == .pawn && (s.rank == 0 || s.rank == 7)) then
        P := P.put s (some ⟨col c, k⟩)
    let side ← if ← chance 1 2 then pure Color.white else pure Color.black
    P := { P with side := side }
    if Spec.LegalPosition P && !(Spec.legalMoves P).isEmpty then return some P else zugPosition tries

def zugOps (n : Nat) (sops : List String) : G (List String) := do
  let mut out : List String := []
  for _ in [0:n] do
    match ← zugPosition 200 with
    | some P => out := out ++ [s!"pos position fen {Spec.toFen P 0 1}"] ++ sops
    | none => pure ()
  return out

/-- HOME-ROOK LATTICE: both kings and all four rooks at home with all four rights; one extra piece of
    every kind and colour on every square; every legal move of the side to move that CAPTURES a rook
    on a corner (by any piece, from any square: corner to corner along the long diagonal, along the
    edge, knight jumps, pawn captures with each promotion) or MOVES a rook / the king off its home
    square — followed by generation from the generated successor (rights must be gone exactly as
    the rules say, no castling with a missing or foreign rook) -/
def rightsLattice (perItem : List String) : G (List String) := do
  let mut out : List String := []
  let empty : Spec.Position :=
    { cells := Array.replicate 64 none, side := .white, wks := true, wqs := true, bks := true, bqs := true, ep := none }
  let base := (((((empty.put ⟨4, 0⟩ (some ⟨.white, .king⟩)).put ⟨4, 7⟩ (some ⟨.black, .king⟩)).put ⟨0, 0⟩ (some ⟨.white, .rook⟩)).put
    ⟨7, 0⟩ (some ⟨.white, .rook⟩)).put ⟨0, 7⟩ (some ⟨.black, .rook⟩)).put ⟨7, 7⟩ (some ⟨.black, .rook⟩)
  let corners : List Spec.Sq := [⟨0, 0⟩, ⟨7, 0⟩, ⟨0, 7⟩, ⟨7, 7⟩]
  let homes : List Spec.Sq := corners ++ [⟨4, 0⟩, ⟨4, 7⟩]
  -- the base and its four variants with one corner vacated (that right gone), so that the extra piece
  -- can stand ON a corner (corner-to-corner captures along the long diagonal)
  let vacate (q : Spec.Sq) : Spec.Position :=
    let B := base.put q none
    { B with wqs := B.wqs && q != ⟨0, 0⟩, wks := B.wks && q != ⟨7, 0⟩, bqs := B.bqs && q != ⟨0, 7⟩, bks := B.bks && q != ⟨7, 7⟩ }
  let variants := base :: corners.map vacate
  -- part 1: the extra piece captures a rook on a corner
  for V in variants do
    for c in [Color.white, Color.black] do
      for k in [Kind.queen, Kind.rook, Kind.bishop, Kind.knight, Kind.pawn] do
        for r in [0:8] do
          for f in [0:8] do
            let s : Spec.Sq := ⟨f, r⟩
            if (V.at s).isNone && !(k == .pawn && (r == 0 || r == 7)) then
              let P := { (V.put s (some ⟨c, k⟩)) with side := c }
              if Spec.LegalPosition P then
                for m in Spec.legalMoves P do
                  if m.src == s && corners.contains m.dst && (P.at m.dst).isSome then
                    out := out ++ [fenLine P 0 1, s!"pick {Spec.moveText m}"] ++ perItem
  -- part 2: kings and rooks leave home or capture each other along the edges
  for V in variants do
    for c in [Color.white, Color.black] do
      let P := { V with side := c }
      if Spec.LegalPosition P then
        for m in Spec.legalMoves P do
          if homes.contains m.src then
            out := out ++ [fenLine P 0 1, s!"pick {Spec.moveText m}"] ++ perItem
  return out

/-- castling with EVERY subset of the four rights set (rooks and kings at home, so every subset is a
    legal position): each castling move of the side to move, then generation from the successor.
    The key of the successor must lose exactly the rights that were held. -/
def castleRightsLattice (perItem : List String) : G (List String) := do
  let mut out : List String := []
  let empty : Spec.Position :=
    { cells := Array.replicate 64 none, side := .white, wks := false, wqs := false, bks := false, bqs := false, ep := none }
  let base := (((((empty.put ⟨4, 0⟩ (some ⟨.white, .king⟩)).put ⟨4, 7⟩ (some ⟨.black, .king⟩)).put ⟨0, 0⟩ (some ⟨.white, .rook⟩)).put
    ⟨7, 0⟩ (some ⟨.white, .rook⟩)).put ⟨0, 7⟩ (some ⟨.black, .rook⟩)).put ⟨7, 7⟩ (some ⟨.black, .rook⟩)
  for mask in [0:16] do
    for c in [Color.white, Color.black] do
      for epf in [none, some (3 : Nat)] do
        -- optionally a pawn of the side that just moved on its 4th rank with a pending en passant target
        let P0 := { base with wks := mask % 2 == 1, wqs := (mask / 2) % 2 == 1, bks := (mask / 4) % 2 == 1, bqs := (mask / 8) % 2 == 1, side := c }
        let P := match epf with
          | none => P0
          | some f =>
            let r4 : Nat := if c == Color.white then 4 else 3
            let r3 : Nat := if c == Color.white then 5 else 2
            { (P0.put ⟨f, r4⟩ (some ⟨c.opp, .pawn⟩)) with ep := some ⟨f, r3⟩ }
        if Spec.LegalPosition P then
          for m in Spec.legalMoves P do
            if Spec.isCastle P m then
              out := out ++ [fenLine P 0 1, s!"pick {Spec.moveText m}"] ++ perItem
  return out

def runG {α : Type} (seed : Nat) (g : G α) : α := (g.run ⟨UInt64.ofNat seed⟩).1
