/-
  wvm — the model side of the correspondence check and the specification oracle.
    wvm run            ops on stdin → `M <model output>` and `S <spec verdict>` per op
    wvm genops …       op generators (positions come from the SPEC's legalMoves, never the engine)
-/
import Walleye.Model.SearchChess
import Walleye.Model.Time
import Walleye.Model.Uci
import Walleye.Spec.Abs
import Walleye.Ops
import Walleye.Spec.Negamax
open Walleye

def hexDigit (n : Nat) : Char := if n < 10 then Char.ofNat (48 + n) else Char.ofNat (87 + n)

def hex16 (k : UInt64) : String :=
  String.ofList ((List.range 16).map fun i => hexDigit ((k.toNat >>> (4 * (15 - i))) % 16))

def sqChar : Square → Char
  | .empty => '.'
  | .boundary => '#'
  | .full p => Spec.pieceChar p

def placementOf (b : Board) : String := Id.run do
  let mut out := ""
  for r in [2:10] do
    let mut run := 0
    for c in [2:10] do
      let ch := sqChar (b.get r c)
      if ch == '.' then run := run + 1
      else
        if run > 0 then out := out ++ toString run
        run := 0
        out := out.push ch
    if run > 0 then out := out ++ toString run
    if r != 9 then out := out.push '/'
  return out

def ringOk (b : Board) : Bool :=
  (List.range 12).all fun r => (List.range 12).all fun c =>
    (2 ≤ r && r < 10 && 2 ≤ c && c < 10) || b.get r c == .boundary

def ptAlg (p : Point) : String :=
  if 2 ≤ p.row && p.row < 10 && 2 ≤ p.col && p.col < 10 then String.ofList (pointDisplay p)
  else s!"({p.row},{p.col})"

def rightsOf (p : Pos) : String :=
  let s := (if p.wks then "K" else "") ++ (if p.wqs then "Q" else "") ++
           (if p.bks then "k" else "") ++ (if p.bqs then "q" else "")
  if s.isEmpty then "-" else s

def stateStr (p : Pos) : String :=
  let lm := match p.lastMove with
    | none => "-"
    | some (f, t) => ptAlg f ++ ">" ++ ptAlg t
  let pp := match p.promo with
    | none => "-"
    | some pc => (match pc.color with | .white => "w" | .black => "b") ++ String.singleton (Gen.kindAlg pc.kind)
  let ep := match p.ep with | none => "-" | some e => ptAlg e
  s!"{placementOf p.board} {Spec.sideText p.toMove} {rightsOf p} {ep} {p.wk.row},{p.wk.col} {p.bk.row},{p.bk.col} {hex16 p.key} {lm} {pp} {if ringOk p.board then "R" else "X"} {p.oh}"

def succStr (p : Pos) : String := moveId p ++ "|" ++ stateStr p

/-- the seven property-relevant fields as the SPEC derives them -/
def specStateStr (h : Hasher) (P : Spec.Position) : String :=
  let k (c : Color) : String := match Spec.kingSquares P c with
    | [s] => let p := Spec.toPoint s; s!"{p.row},{p.col}"
    | _ => "?"
  s!"{Spec.coreText P} {k .white} {k .black} {hex16 (Spec.scratchKey h P)}"

def tableStr (t : DrawTable) : String :=
  let v := (t.filter fun e => e.2 != 0).toArray.qsort (fun a b => a.1 < b.1)
  if v.isEmpty then "-" else ",".intercalate (v.toList.map fun e => s!"{hex16 e.1}:{e.2}")

def sortStrings (l : List String) : List String := (l.toArray.qsort (· < ·)).toList

def unescape (s : String) : List Char :=
  let rec go : Nat → List Char → List Char → List Char
    | 0, _, acc => acc.reverse
    | _ + 1, [], acc => acc.reverse
    | f + 1, '\\' :: 'n' :: r, acc => go f r ('\n' :: acc)
    | f + 1, '\\' :: 'r' :: r, acc => go f r ('\r' :: acc)
    | f + 1, '\\' :: 't' :: r, acc => go f r ('\t' :: acc)
    | f + 1, '\\' :: '\\' :: r, acc => go f r ('\\' :: acc)
    | f + 1, '\\' :: 'u' :: '{' :: r, acc =>
      let hexs := r.takeWhile (· ≠ '}')
      let rest := (r.dropWhile (· ≠ '}')).drop 1
      let v := hexs.foldl (fun a c =>
        a * 16 + (if c.isDigit then c.toNat - 48 else if 'a' ≤ c ∧ c ≤ 'f' then c.toNat - 87
                  else if 'A' ≤ c ∧ c ≤ 'F' then c.toNat - 55 else 0)) 0
      go f rest (Char.ofNat v :: acc)
    | f + 1, '\\' :: c :: r, acc => go f r (c :: acc)
    | f + 1, c :: r, acc => go f r (c :: acc)
  go (s.length + 1) s.toList []

def hexStr (n : Nat) : String :=
  if n < 16 then String.singleton (hexDigit n) else hexStr (n / 16) ++ String.singleton (hexDigit (n % 16))

def escape (s : List Char) : String :=
  String.join (s.map fun c =>
    if c == '\n' then "\\n" else if c == '\r' then "\\r" else if c == '\t' then "\\t"
    else if c == '\\' then "\\\\"
    else if c.toNat < 0x20 || c.toNat ≥ 0x7f then "\\u{" ++ hexStr c.toNat ++ "}"
    else String.singleton c)

structure Ctx where
  cur : Pos
  table : DrawTable
  spec : Option Spec.Position      -- the position according to the SPEC (none: not tracked / not a legal position)
  specRaw : Option Spec.Position := none   -- as read by the spec's own FEN reader, legal or not

def H : Hasher := Hasher.real

def startPos : Pos :=
  match fromFen H Gen.defaultFen.toList with
  | .ok p => p
  | _ => default

/-- the state line printed by hook H5 (`verif::trace_state`) at the top of the UCI loop -/
def traceStr (p : Pos) (t : DrawTable) : String :=
  let lm := match p.lastMove with
    | none => "-"
    | some (f, t) => ptAlg f ++ ">" ++ ptAlg t
  let pp := match p.promo with
    | none => "-"
    | some pc => (match pc.color with | .white => "w" | .black => "b") ++ String.singleton (Gen.kindAlg pc.kind)
  let ep := match p.ep with | none => "-" | some e => ptAlg e
  s!"verifstate {placementOf p.board} {Spec.sideText p.toMove} {rightsOf p} {ep} {p.wk.row},{p.wk.col} {p.bk.row},{p.bk.col} {hex16 p.key} {lm} {pp} {p.oh} tbl={tableStr t}"

/-- zero-allowance search of the session model: the board the engine answered with must be a root
    successor that is first in the ordering (maximal `order_heuristic`); the engine's choice among
    equals (unstable sort) is adopted -/
def sessSearch (ans : String) (board : Pos) (_t : DrawTable) (slice : Nat) : Option Pos :=
  if slice ≠ 0 then none
  else
    let succs := generateMoves H board .all
    let mx := succs.foldl (fun a q => max a q.oh) (-Gen.posInf)
    succs.find? fun q => moveId q == ans && q.oh == mx

/-- the dispatch loop of `play_game_uci` run on a script: one entry per raw line, a `go` entry carries
    the engine's answer after U+001E; end of script = end of input -/
def runSession (entries : List (List Char)) : List String := Id.run do
  let sep := Char.ofNat 0x1e
  match entries with
  | [] => return ["exit 0"]           -- end of input before the handshake
  | first :: rest =>
    if cleanInput first ≠ "uci".toList then return ["no-handshake"]
    let mut out : List String := ["uciok"]
    let mut σ : Sess := ⟨startPos, []⟩
    let mut live := true
    for e in rest do
      if live then
        out := out ++ [traceStr σ.board σ.table]
        let raw := e.takeWhile (· ≠ sep)
        let ans := String.ofList ((e.dropWhile (· ≠ sep)).drop 1)
        match step H (sessSearch ans) σ (some raw) with
        | .cont σ' o => σ := σ'; out := out ++ o
        | .exit c => out := out ++ [s!"exit {c}"]; live := false
        | .panic => out := out ++ ["panic"]; live := false
        | .hang => out := out ++ ["hang"]; live := false
    if live then
      out := out ++ [traceStr σ.board σ.table]
      match step H (sessSearch "") σ none with
      | .exit c => out := out ++ [s!"exit {c}"]
      | _ => out := out ++ ["?"]
    return out

/-- the same loop on the BYTES the process reads (the model's own `readFromGui` splits them into
    lines); `answers`: the engine's bestmove answers in order, one consumed per dispatched `go` -/
def runSessionBytes (answers : List String) (bytes : List Char) : List String := Id.run do
  match readFromGui bytes with
  | none => return ["exit 0"]
  | some (first, rest0) =>
    if cleanInput first ≠ "uci".toList then return ["no-handshake"]
    let mut out : List String := ["uciok"]
    let mut σ : Sess := ⟨startPos, []⟩
    let mut rest := rest0
    let mut ans := answers
    let mut live := true
    for _ in [0:bytes.length + 2] do
      if live then
        out := out ++ [traceStr σ.board σ.table]
        match readFromGui rest with
        | none => out := out ++ ["exit 0"]; live := false
        | some (line, rest') =>
          rest := rest'
          let isGo := String.ofList ((Str.splitOn ' ' (cleanInput line)).headD []) == "go"
          let a := if isGo then ans.headD "" else ""
          if isGo then ans := ans.drop 1
          match step H (sessSearch a) σ (some line) with
          | .cont σ' o => σ := σ'; out := out ++ o
          | .exit c => out := out ++ [s!"exit {c}"]; live := false
          | .panic => out := out ++ ["panic"]; live := false
          | .hang => out := out ++ ["hang"]; live := false
    return out

/-- total number of positions visited by the engine's test bench to depth d: perft(1) + … + perft(d) -/
def modelNodes (p : Pos) : Nat → Nat
  | 0 => 0
  | d + 1 => let succs := generateMoves H p .all
             succs.length + (succs.map fun q => modelNodes q d).sum

def specNodes (P : Spec.Position) : Nat → Nat
  | 0 => 0
  | d + 1 => let ms := Spec.legalMoves P
             ms.length + (ms.map fun m => specNodes (Spec.apply P m) d).sum

def splitSp (s : String) : List String := s.splitOn " "

def specLegal (P : Spec.Position) : Bool := Spec.LegalPosition P

/-- S line for a successor list: legal moves of the spec with the resulting spec states -/
def specSuccs (P : Spec.Position) (capsOnly : Bool) : String :=
  let ms := Spec.legalMoves P
  let ms := if capsOnly then ms.filter (fun m => (P.at m.dst).isSome || Spec.isEnPassant P m) else ms
  let v := sortStrings (ms.map fun m => Spec.moveText m ++ "|" ++ specStateStr H (Spec.apply P m))
  s!"{v.length} {";".intercalate v}"

def parseOrd (s : String) : Array (Char × Array String) :=
  if s.isEmpty then #[] else
  ((s.splitOn ";").map fun e =>
    match e.toList with
    | site :: ':' :: rest =>
      let r := String.ofList rest
      (site, if r.isEmpty then #[] else (r.splitOn ",").toArray)
    | _ => ('?', #[])).toArray

def abFuel : Nat := 100000

structure SearchOut where
  text : String
  bad : Option String

def runSearch (ctx : Ctx) (k : Option Nat) (log : Option (Array (Char × Array String))) : SearchOut :=
  let o : OrdLog := match log with
    | some l => { log := l }
    | none => { log := #[], useLog := false }
  let s0 : SS Pos OrdLog := newSS k ctx.table o
  let r := getBestMove (chessGame H) logOracle abFuel ctx.cur s0
  let (s, flag) := match r with
    | .ok _ s => (s, "0")
    | .panic s => (s, "1")
    | .fuel s => (s, "fuel")
  let sent := s.reports.toList.filterMap fun
    | .sent p => some (succStr p)
    | _ => none
  let infos := s.reports.toList.filterMap fun
    | .info i => some (infoText i)
    | _ => none
  let roots := s.ord.rootSorts
  { text := s!"sent={";".intercalate sent}~info={";".intercalate infos}~tbl={tableStr s.table}~q={s.queries}~roots={roots}~panic={flag}",
    bad := s.ord.bad }

def scoreText (e : Int) : String :=
  if e ≥ Gen.mateScore - Gen.mateWindow then s!"mate {Int.tdiv (Gen.mateScore - e + 1) 2}"
  else if e ≤ -Gen.mateScore + Gen.mateWindow then s!"mate {Int.tdiv (Gen.mateScore + e) (-2)}"
  else s!"cp {e}"

def splitOnce (s : String) (sep : String) : String × String :=
  match s.splitOn sep with
  | [] => ("", "")
  | [a] => (a, "")
  | a :: rest => (a, sep.intercalate rest)

/-- one op → (new context, model line, spec line) -/
def doOp (ctx : Ctx) (line : String) : Ctx × String × String :=
  let (op, rest) := splitOnce line " "
  match op with
  | "fen" =>
    let text := unescape rest
    let sp := (Spec.parseFen (String.ofList (trimNewline text))).filter specLegal
    let S := match sp with | some P => specStateStr H P | none => "-"
    (match fromFen H text with
     | .ok p => ({ cur := p, table := [], spec := sp, specRaw := Spec.parseFen (String.ofList (trimNewline text)) }, "ok " ++ stateStr p, S)
     | .err e => (ctx, "err " ++ e, S)
     | .panic => (ctx, "panic", S))
  | "gen" =>
    let mode := if rest == "cap" then Mode.caps else Mode.all
    let v := sortStrings ((generateMoves H ctx.cur mode).map succStr)
    let S := match ctx.spec with
      | some P => specSuccs P (rest == "cap")
      | none => "-"
    (ctx, s!"{v.length} {";".intercalate v}", S)
  | "dt" =>
    -- the DrawTable API on its own (see the harness): M = the model, S = plain occurrence counting
    let toks := (splitSp rest).filter (· ≠ "")
    let keyOf (n : String) : UInt64 := (0x9E3779B97F4A7C15 : UInt64) * (UInt64.ofNat (n.toNat?.getD 0) + 1)
    let (t, out, bad) := toks.foldl (fun (acc : DrawTable × String × Bool) tok =>
      let (t, out, bad) := acc
      let cmd := (tok.take 1).toString
      let k := keyOf (tok.drop 1).toString
      if bad then acc
      else if cmd == "a" then (match t.add k with | some t' => (t', out, false) | none => (t, out, true))
      else if cmd == "r" then (match t.remove k with | some t' => (t', out, false) | none => (t, out, true))
      else if cmd == "q" then (t, out ++ (if t.isThreefold k then "1" else "0"), false)
      else if cmd == "c" then (([] : DrawTable), out, false)
      else acc) (([] : DrawTable), "", false)
    -- specification: a multiset of keys
    let (ms, sout) := toks.foldl (fun (acc : List UInt64 × String) tok =>
      let (ms, sout) := acc
      let cmd := (tok.take 1).toString
      let k := keyOf (tok.drop 1).toString
      if cmd == "a" then (k :: ms, sout)
      else if cmd == "r" then (ms.erase k, sout)
      else if cmd == "q" then (ms, sout ++ (if ms.count k ≥ 2 then "1" else "0"))
      else if cmd == "c" then ([], sout)
      else acc) (([] : List UInt64), "")
    let stbl : DrawTable := ms.eraseDups.map fun k => (k, ms.count k)
    (ctx, if bad then "panic" else s!"{if out.isEmpty then "-" else out} tbl={tableStr t}",
     s!"{if sout.isEmpty then "-" else sout} tbl={tableStr stbl}")
  | "gennull" =>
    -- generation from the null-move clone (side flipped, en passant target and key kept).
    -- S: the legal (capturing) moves of the same placement with the other side to move and NO en
    -- passant target — defined when neither side is in check (the engine makes a null move only then)
    let mode := if rest == "cap" then Mode.caps else Mode.all
    let nb : Pos := { ctx.cur with toMove := ctx.cur.toMove.opp }
    let v := sortStrings ((generateMoves H nb mode).map succStr)
    let S := match ctx.spec with
      | some P =>
        if Spec.inCheck P .white || Spec.inCheck P .black then "-"
        else specSuccs { P with side := P.side.opp, ep := none } (rest == "cap")
      | none => "-"
    (ctx, s!"{v.length} {";".intercalate v}", S)
  | "pick" | "pickc" =>
    let mode := if op == "pickc" then Mode.caps else Mode.all
    let found := (generateMoves H ctx.cur mode).filter fun p => moveId p == rest
    (match found with
     | [p] =>
       let sp := ctx.spec.bind fun P => (Spec.parseMove rest).bind fun m =>
         if Spec.legal P m then some (Spec.apply P m) else none
       ({ ctx with cur := p, spec := sp, specRaw := none }, "ok " ++ stateStr p,
        match sp with | some P => specStateStr H P | none => "-")
     | l => (ctx, s!"nomove {l.length}", "-"))
  | "chk" =>
    let b (x : Bool) := if x then "1" else "0"
    let S := match ctx.spec with
      | some P => b (Spec.inCheck P .white) ++ b (Spec.inCheck P .black)
      | none =>
        match ctx.specRaw with
        | some P =>
          if (Spec.kingSquares P .white).length == 1 && (Spec.kingSquares P .black).length == 1
          then b (Spec.inCheck P .white) ++ b (Spec.inCheck P .black) else "-"
        | none => "-"
    (ctx, b (isCheck ctx.cur .white) ++ b (isCheck ctx.cur .black), S)
  | "eval" => (ctx, toString (getEvaluation ctx.cur), "-")
  | "evalflip" =>
    (ctx, s!"{getEvaluation ctx.cur} {getEvaluation { ctx.cur with toMove := ctx.cur.toMove.opp }}", "-")
  | "mk" =>
    (match makeMove H ctx.cur rest.toList with
     | some p =>
       let sp := ctx.spec.bind fun P => (Spec.parseMove rest).bind fun m =>
         if Spec.legal P m then some (Spec.apply P m) else none
       ({ ctx with cur := p, spec := sp, specRaw := none }, "ok " ++ stateStr p,
        match sp with | some P => specStateStr H P | none => "-")
     | none => (ctx, "panic", "-"))
  | "pos" =>
    let cmds := (splitSp rest).map String.toList
    (match playOutPosition H cmds with
     | some (p, t) =>
       -- SPEC replay: start position, then every move must be legal
       let toks := splitSp rest
       let start : Option Spec.Position :=
         if toks.getD 1 "" == "fen" then Spec.parseFen (" ".intercalate ((toks.drop 2).take 6))
         else Spec.parseFen Gen.defaultFen
       let mvs := match toks.idxOf? "moves" with
         | some i => toks.drop (i + 1)
         | none => []
       let sp := mvs.foldl (fun acc mv => acc.bind fun (P, keys) => (Spec.parseMove mv).bind fun m =>
           if Spec.legal P m then
             let Q := Spec.apply P m
             some (Q, Spec.scratchKey H Q :: keys) else none)
         (start.filter specLegal |>.map fun P => (P, [Spec.scratchKey H P]))
       let S := match sp with
         | some (P, keys) =>
           -- occurrence counts of every key of the history, computed from scratch
           let uniq := keys.eraseDups
           let tbl : DrawTable := uniq.map fun k => (k, keys.count k)
           specStateStr H P ++ " tbl=" ++ tableStr tbl
         | none => "-"
       ({ cur := p, table := t, spec := sp.map (·.1), specRaw := none }, s!"ok {stateStr p} tbl={tableStr t}", S)
     | none => (ctx, "panic", "-"))
  | "tbl" => (ctx, tableStr ctx.table, "-")
  | "gocmd" =>
    (match parseGoCommand ((splitSp rest).map String.toList) with
     | some gt =>
       (ctx, s!"{gt.wtime} {gt.btime} {gt.winc} {gt.binc} {match gt.movestogo with | some m => toString m | none => "-"}", "-")
     | none => (ctx, "panic", "-"))
  | "slice" =>
    (match splitSp rest with
     | [wt, bt, wi, bi, mtg, c] =>
       let gt : GameTime := { wtime := wt.toInt!, btime := bt.toInt!, winc := wi.toInt!, binc := bi.toInt!,
                              movestogo := if mtg == "-" then none else some mtg.toNat! }
       (ctx, toString (calculateTimeSlice gt (if c == "w" then .white else .black)), "-")
     | _ => (ctx, "bad-op", "-"))
  | "clean" => (ctx, escape (cleanInput (unescape rest)), "-")
  | "perft" =>
    -- `perft <d>`: nodes visited by `walleye -T -d <d>` from the current position
    let d := rest.toNat!
    (ctx, toString (modelNodes ctx.cur d), match ctx.spec with | some P => toString (specNodes P d) | none => "-")
  | "sessb" =>
    -- `sessb <answers,comma separated>|<escaped bytes of standard input>`
    let (ansS, bytesS) := splitOnce rest "|"
    let answers := if ansS.isEmpty then [] else ansS.splitOn ","
    (ctx, " ~~ ".intercalate (runSessionBytes answers (unescape bytesS)), "-")
  | "sess" =>
    -- `sess <escaped script>`: entries separated by newlines
    let entries := (String.ofList (unescape rest)).splitOn "\n" |>.map String.toList
    (ctx, " ~~ ".intercalate (runSession entries), "-")
  | "trimnl" => (ctx, escape (trimNewline (unescape rest)), "-")
  | "fmt" =>
    (ctx, match bestmoveLine ctx.cur with | some l => String.ofList l | none => "panic", "-")
  | "pt" =>
    (ctx, match pointFromStr (unescape rest) with
      | .ok p => s!"ok {p.row} {p.col}"
      | .err e => "err " ++ e
      | .panic => "panic", "-")
  | "ptdisp" =>
    (match (splitSp rest).map String.toNat! with
     | [r, c] => (ctx, String.ofList (pointDisplay ⟨r, c⟩), "-")
     | _ => (ctx, "bad-op", "-"))
  | "search" =>
    -- `search <k> <ordlog>`
    let (kStr, logStr) := splitOnce rest " "
    let k := if kStr == "inf" then none else some kStr.toNat!
    let out := runSearch ctx k (some (parseOrd logStr))
    (ctx, out.text ++ (match out.bad with | some b => "~ORDER-LOG-MISMATCH " ++ b | none => ""), "-")
  | "searchd" =>
    -- `searchd <N> <k> <ordlog>`: the run that completes iterations 1..N; S = minimax values
    let (nStr, rest2) := splitOnce rest " "
    let (kStr, logStr) := splitOnce rest2 " "
    let out := runSearch ctx (some kStr.toNat!) (some (parseOrd logStr))
    let S := ";".intercalate ((List.range nStr.toNat!).map fun i =>
      let d := i + 1
      let g := chessGame H
      -- first move full window, then (best-1, +inf): exact whenever the value is >= best, so ties are seen
      let (best, arg) := (sortDesc (generateMoves H ctx.cur .all)).foldl (fun (acc : Int × List String) m =>
          let (best, arg) := acc
          let lo := if arg.isEmpty then -Gen.posInf else best - 1
          let v := - Spec.fast g sortDesc abFuel (d - 1) 1 ctx.table m (-Gen.posInf) (-lo)
          if arg.isEmpty || v > best then (v, [moveId m])
          else if v == best then (best, arg ++ [moveId m])
          else (best, arg)) ((-Gen.posInf : Int), ([] : List String))
      s!"D={d}:{best}:{scoreText best}:{",".intercalate arg}")
    (ctx, out.text ++ (match out.bad with | some b => "~ORDER-LOG-MISMATCH " ++ b | none => ""), S)
  | "mateinfo" =>
    -- S: moves that mate at once; moves after which the opponent has no mate in one; mate-in-2/3 existence
    let g := fun (p : Pos) => generateMoves H p .all
    let isMate := fun (p : Pos) => (g p).isEmpty && isCheck p p.toMove
    let kids := g ctx.cur
    let m1 := kids.filter isMate |>.map moveId
    let safe := kids.filter (fun c => !(g c).any isMate) |>.map moveId
    let stale := kids.isEmpty && !isCheck ctx.cur ctx.cur.toMove
    (ctx, "-", s!"m1={",".intercalate m1}~safe={",".intercalate safe}~stalemate={if stale then 1 else 0}~n={kids.length}")
  | "matecheck" =>
    -- `matecheck <N> <first move|->`: N>0: after the given first move the opponent is mated within N-1
    -- further moves of ours (so a forced mate in <= N exists); N<0: whatever we play, we are mated within |N|
    let g := fun (p : Pos) => generateMoves H p .all
    let isMate := fun (p : Pos) => (g p).isEmpty && isCheck p p.toMove
    let rec mateIn : Nat → Pos → Bool
      | 0, _ => false
      | n + 1, p => (g p).any fun c => isMate c || (n > 0 && !(g c).isEmpty && (g c).all fun r => mateIn n r)
    let rec forcedAfter : Nat → Pos → Bool       -- side to move at `c` cannot avoid being mated within n more moves of the opponent
      | n, c => isMate c || (n > 0 && !(g c).isEmpty && (g c).all fun r => mateIn n r)
    (match splitSp rest with
     | [nS, mv] =>
       let n := nS.toInt!
       if n > 0 then
         let cand := (g ctx.cur).filter fun c => mv == "-" || (moveId c).take 4 == mv.take 4
         (ctx, "-", if cand.any (forcedAfter (n.toNat - 1)) then "true" else "false")
       else
         let k := (-n).toNat
         let kids := g ctx.cur
         (ctx, "-", if !kids.isEmpty && kids.all (fun c => mateIn k c) then "true" else "false")
     | _ => (ctx, "bad-op", "-"))
  | "evalrel" =>
    let vals := (rest.splitOn "|").map fun f =>
      match fromFen H f.toList with
      | .ok p => toString (getEvaluation p)
      | _ => "x"
    (ctx, " ".intercalate vals, "-")
  | "sweep" =>
    -- `sweep <k1,k2,...> <ordlog>`
    let (ks, logStr) := splitOnce rest " "
    let log := parseOrd logStr
    let parts := (ks.splitOn ",").map fun kS =>
      let out := runSearch ctx (some kS.toNat!) (some log)
      s!"k={kS}~{out.text}" ++ (match out.bad with | some b => "~ORDER-LOG-MISMATCH " ++ b | none => "")
    (ctx, "~~".intercalate parts, "-")
  | _ => (ctx, "bad-op", "-")

partial def loop (hin : IO.FS.Stream) (hout : IO.FS.Stream) (ctx : Ctx) : IO Unit := do
  let line ← hin.getLine
  if line.isEmpty then return ()
  let line := if line.endsWith "\n" then (line.dropEnd 1).toString else line
  if line.isEmpty || line.startsWith "#" then
    loop hin hout ctx
  else
    let (ctx', m, s) := doOp ctx line
    hout.putStrLn ("M " ++ m)
    hout.putStrLn ("S " ++ s)
    loop hin hout ctx'

def main (args : List String) : IO Unit := do
  match args with
  | ["run"] =>
    let hin ← IO.getStdin
    let hout ← IO.getStdout
    loop hin hout { cur := startPos, table := [], spec := Spec.parseFen Gen.defaultFen }
  | "genops" :: kind :: seedS :: rest =>
    let seed := seedS.toNat!
    let n (i : Nat) (d : Nat) : Nat := (rest.getD i "").toNat?.getD d
    let perPly := ["gen all", "gen cap", "chk", "eval", "fmt"]
    let lines : List String := match kind with
      | "walk" => runG seed (walkOps (n 0 10) (n 1 40) perPly (n 2 4))
      | "fenpos" => runG seed (fenPosOps (n 0 100) ["gen all", "gen cap", "chk", "eval"])
      | "castle" => runG seed (castleLattice (n 0 50))
      | "chk" => runG seed (checkLattice (n 0 100))
      | "badstems" => stems.filter (fun s => !stemsOK.contains s)
      | "pairs" => pairOps (n 0 1)
      | "eval" => runG seed (evalOps (n 0 1000))
      | "search" => runG seed (searchOps (n 0 20) (n 1 30) ((rest.drop 2).map fun a => a.replace "_" " "))
      | "mate" => runG seed (mateOps (n 0 20) ((rest.drop 1).map fun a => a.replace "_" " "))
      | "zug" => runG seed (zugOps (n 0 20) ((rest.drop 1).map fun a => a.replace "_" " "))
      | "matesoon" => runG seed (mateSoonOps (n 0 20) ((rest.drop 1).map fun a => a.replace "_" " "))
      | "retromate" => runG seed (retroMateOps (n 0 20) ((rest.drop 1).map fun a => a.replace "_" " "))
      | "rep" => runG seed (repOps (n 0 20) (n 1 30) (n 2 4) ((rest.drop 3).map fun a => a.replace "_" " "))
      | "cap" => runG seed (capOps (n 0 50) (n 1 30) (n 2 6))
      | "castlerights" => runG seed (castleRightsLattice ((rest.drop 0).map fun a => a.replace "_" " "))
      | "rights" => runG seed (rightsLattice ((rest.drop 0).map fun a => a.replace "_" " "))
      | "chkmoves" => runG seed (chkMoveOps (n 0 1) ((rest.drop 1).map fun a => a.replace "_" " "))
      | "heavy" => runG seed (heavyOps (n 0 10) ((rest.drop 1).map fun a => a.replace "_" " "))
      | "dense" => runG seed (denseOps (n 0 10) (n 1 6) ((rest.drop 2).map fun a => a.replace "_" " "))
      | "fewmoves" => runG seed (fewMovesOps (n 0 10) (n 1 1) (n 2 60) ((rest.drop 3).map fun a => a.replace "_" " "))
      | _ => []
    let hout ← IO.getStdout
    for l in lines do hout.putStrLn l
  | ["timefast", fen] =>
    match fromFen H fen.toList with
    | .ok p =>
      let g := chessGame H
      for d in [1,2,3] do
        let t0 ← IO.monoMsNow
        let vals := (generateMoves H p .all).map fun m =>
          (moveId m, - Spec.fast g sortDesc 100000 (d - 1) 1 [] m (-Gen.posInf) Gen.posInf)
        IO.println s!"{d} {vals.take 3}"
        let t1 ← IO.monoMsNow
        IO.println s!"ms {t1 - t0}"
    | _ => pure ()
  | _ => IO.eprintln "usage: wvm run | wvm genops <kind> <seed> [args]"
