import Walleye.Model.Types
import Walleye.Generated.Consts
