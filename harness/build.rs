// Writes the `#[path]` module declarations that pull the real sources of the engine into
// this crate.  WALLEYE_REPO (default /repo) selects the tree; cargo tracks the included files,
// so every build reflects the current working tree.
use std::{env, fs, path::Path};
fn main() {
    let repo = env::var("WALLEYE_REPO").unwrap_or_else(|_| "/repo".to_string());
    println!("cargo:rerun-if-env-changed=WALLEYE_REPO");
    let mods = [
        "board", "draw_table", "engine", "evaluation", "move_generation", "search",
        "time_control", "uci", "utils", "zobrist", "verif",
    ];
    let mut s = String::new();
    for m in mods {
        s += &format!("#[path = \"{}/src/{}.rs\"]\nmod {};\n", repo, m, m);
    }
    let out = env::var("OUT_DIR").unwrap();
    fs::write(Path::new(&out).join("mods.rs"), s).unwrap();
}
