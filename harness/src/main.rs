//! wvh — the implementation side of the correspondence check.
//! Reads one op per line on stdin, runs the REAL engine code (included by path from the repo's
//! working tree, hooks enabled) in-process, prints one canonical line per op: `I <text>`.
//! The Lean driver `wvm` reads the same ops and prints `M <text>` (model) and `S <text>` (spec).
#![allow(clippy::all)]

include!(concat!(env!("OUT_DIR"), "/mods.rs"));

use board::*;
use draw_table::DrawTable;
use move_generation::{generate_moves, is_check, MoveGenerationMode};
use std::io::{self, BufRead, Write};
use std::panic::{catch_unwind, AssertUnwindSafe};
use std::str::FromStr;
use std::sync::mpsc;
use std::time::Instant;
use zobrist::ZobristHasher;

fn sq_char(s: Square) -> char {
    match s {
        Square::Empty => '.',
        Square::Boundary => '#',
        Square::Full(p) => {
            let c = match p.kind {
                PieceKind::Pawn => 'p',
                PieceKind::Knight => 'n',
                PieceKind::Bishop => 'b',
                PieceKind::Rook => 'r',
                PieceKind::Queen => 'q',
                PieceKind::King => 'k',
            };
            if p.color == PieceColor::White {
                c.to_ascii_uppercase()
            } else {
                c
            }
        }
    }
}

fn placement(b: &BoardState) -> String {
    let mut out = String::new();
    for r in 2..10 {
        let mut run = 0;
        for c in 2..10 {
            let ch = sq_char(b.board[r][c]);
            if ch == '.' {
                run += 1;
            } else {
                if run > 0 {
                    out.push_str(&run.to_string());
                    run = 0;
                }
                out.push(ch);
            }
        }
        if run > 0 {
            out.push_str(&run.to_string());
        }
        if r != 9 {
            out.push('/');
        }
    }
    out
}

fn ring_ok(b: &BoardState) -> bool {
    for r in 0..12 {
        for c in 0..12 {
            let inside = (2..10).contains(&r) && (2..10).contains(&c);
            if !inside && b.board[r][c] != Square::Boundary {
                return false;
            }
        }
    }
    true
}

fn pt_alg(p: Point) -> String {
    if (2..10).contains(&p.0) && (2..10).contains(&p.1) {
        format!("{}", p)
    } else {
        format!("({},{})", p.0, p.1)
    }
}

fn rights(b: &BoardState) -> String {
    let mut s = String::new();
    if b.white_king_side_castle {
        s.push('K');
    }
    if b.white_queen_side_castle {
        s.push('Q');
    }
    if b.black_king_side_castle {
        s.push('k');
    }
    if b.black_queen_side_castle {
        s.push('q');
    }
    if s.is_empty() {
        s.push('-');
    }
    s
}

/// canonical state: placement side rights ep | wk bk key lastmove promo ring oh
fn state(b: &BoardState) -> String {
    let lm = match b.last_move {
        None => "-".to_string(),
        Some((f, t)) => format!("{}>{}", pt_alg(f), pt_alg(t)),
    };
    let pp = match b.pawn_promotion {
        None => "-".to_string(),
        Some(p) => format!(
            "{}{}",
            if p.color == PieceColor::White { 'w' } else { 'b' },
            p.kind.alg()
        ),
    };
    format!(
        "{} {} {} {} {},{} {},{} {:016x} {} {} {} {}",
        placement(b),
        if b.to_move == PieceColor::White { 'w' } else { 'b' },
        rights(b),
        b.pawn_double_move.map_or("-".to_string(), pt_alg),
        b.white_king_location.0,
        b.white_king_location.1,
        b.black_king_location.0,
        b.black_king_location.1,
        b.zobrist_key,
        lm,
        pp,
        if ring_ok(b) { 'R' } else { 'X' },
        b.order_heuristic
    )
}

fn table_str(t: &DrawTable) -> String {
    let mut v: Vec<(u64, u8)> = t.table.iter().map(|(k, v)| (*k, *v)).filter(|(_, v)| *v != 0).collect();
    v.sort();
    if v.is_empty() {
        return "-".to_string();
    }
    v.iter().map(|(k, c)| format!("{:016x}:{}", k, c)).collect::<Vec<_>>().join(",")
}

fn unescape(s: &str) -> String {
    let mut out = String::new();
    let mut it = s.chars().peekable();
    while let Some(c) = it.next() {
        if c != '\\' {
            out.push(c);
            continue;
        }
        match it.next() {
            Some('n') => out.push('\n'),
            Some('r') => out.push('\r'),
            Some('t') => out.push('\t'),
            Some('\\') => out.push('\\'),
            Some('u') => {
                // \u{hex}
                let mut hex = String::new();
                if it.next() == Some('{') {
                    for d in it.by_ref() {
                        if d == '}' {
                            break;
                        }
                        hex.push(d);
                    }
                }
                if let Some(ch) = u32::from_str_radix(&hex, 16).ok().and_then(char::from_u32) {
                    out.push(ch);
                }
            }
            Some(o) => out.push(o),
            None => {}
        }
    }
    out
}

fn escape(s: &str) -> String {
    let mut out = String::new();
    for c in s.chars() {
        match c {
            '\n' => out.push_str("\\n"),
            '\r' => out.push_str("\\r"),
            '\t' => out.push_str("\\t"),
            '\\' => out.push_str("\\\\"),
            c if (c as u32) < 0x20 || (c as u32) >= 0x7f => out.push_str(&format!("\\u{{{:x}}}", c as u32)),
            c => out.push(c),
        }
    }
    out
}

struct Ctx {
    hasher: ZobristHasher,
    cur: BoardState,
    table: DrawTable,
}

fn succ_str(b: &BoardState) -> String {
    format!("{}|{}", verif::move_id(b), state(b))
}

fn strip_time(line: &str) -> String {
    // "... time T" is wall clock: dropped
    match line.rfind(" time ") {
        Some(i) => line[..i].to_string(),
        None => line.to_string(),
    }
}

struct SearchOut {
    sent: Vec<String>,
    info: Vec<String>,
    table_after: String,
    queries: u64,
    roots: u32,
    q_at_cap: Option<u64>,
    panicked: bool,
    runaway: bool, // ended by the hook clock: still searching long after the expiry
    order: Vec<(u8, Vec<String>)>,
}

fn run_search(ctx: &Ctx, expiry: Option<u64>, root_cap: Option<u32>, want_order: bool) -> SearchOut {
    let mut table = ctx.table.clone();
    let (tx, rx) = mpsc::channel();
    verif::clock_install(expiry, root_cap);
    verif::capture_start();
    if want_order {
        verif::order_start();
    }
    let board = ctx.cur.clone();
    let r = catch_unwind(AssertUnwindSafe(|| {
        engine::get_best_move(&board, &mut table, Instant::now(), 0, &tx);
    }));
    let clock = verif::clock_remove().unwrap();
    let info = verif::capture_take().iter().map(|l| strip_time(l)).collect();
    let order = verif::order_take();
    drop(tx);
    let sent: Vec<String> = rx.try_iter().map(|b| succ_str(&b)).collect();
    SearchOut {
        sent,
        info,
        table_after: table_str(&table),
        queries: clock.queries,
        roots: clock.root_sorts,
        q_at_cap: clock.queries_at_cap,
        panicked: r.is_err(),
        runaway: clock.runaway,
        order,
    }
}

fn search_result_str(o: &SearchOut) -> String {
    format!(
        "sent={}~info={}~tbl={}~q={}~roots={}~panic={}",
        o.sent.join(";"),
        o.info.join(";"),
        o.table_after,
        o.queries,
        o.roots,
        if o.runaway { 2 } else if o.panicked { 1 } else { 0 }
    )
}

fn order_str(order: &[(u8, Vec<String>)]) -> String {
    order
        .iter()
        .map(|(s, m)| format!("{}:{}", *s as char, m.join(",")))
        .collect::<Vec<_>>()
        .join(";")
}

fn do_op(ctx: &mut Ctx, line: &str) -> String {
    let (op, rest) = match line.find(' ') {
        Some(i) => (&line[..i], &line[i + 1..]),
        None => (line, ""),
    };
    match op {
        "fen" => {
            let text = unescape(rest);
            match BoardState::from_fen(&text) {
                Ok(b) => {
                    ctx.cur = b;
                    ctx.table = DrawTable::new();
                    format!("ok {}", state(&ctx.cur))
                }
                Err(e) => format!("err {}", e),
            }
        }
        "gen" => {
            let mode = if rest == "cap" { MoveGenerationMode::CapturesOnly } else { MoveGenerationMode::AllMoves };
            let moves = generate_moves(&ctx.cur, mode, &ctx.hasher);
            let mut v: Vec<String> = moves.iter().map(succ_str).collect();
            v.sort();
            format!("{} {}", v.len(), v.join(";"))
        }
        "dt" => {
            // the DrawTable API on its own: a script of a<k> (add), r<k> (remove), q<k> (threefold?),
            // c (clear) over small key numbers, starting from an empty table; the boards are clones of
            // the current one with the key field set
            let mut t = DrawTable::new();
            let mut out = String::new();
            for tok in rest.split(' ').filter(|x| !x.is_empty()) {
                let (cmd, num) = tok.split_at(1);
                let mut b = ctx.cur.clone();
                b.zobrist_key = 0x9E37_79B9_7F4A_7C15u64.wrapping_mul(num.parse::<u64>().unwrap_or(0) + 1);
                match cmd {
                    "a" => t.add_board_to_draw_table(&b),
                    "r" => t.remove_board_from_draw_table(&b),
                    "q" => out.push(if t.is_threefold_repetition(&b) { '1' } else { '0' }),
                    "c" => t.clear(),
                    _ => {}
                }
            }
            format!("{} tbl={}", if out.is_empty() { "-".to_string() } else { out }, table_str(&t))
        }
        "gennull" => {
            // generation from the NULL-MOVE clone of the current board, built as engine.rs builds it:
            // side to move flipped in memory, everything else (en passant target, key) kept
            let mode = if rest == "cap" { MoveGenerationMode::CapturesOnly } else { MoveGenerationMode::AllMoves };
            let mut b = ctx.cur.clone();
            b.to_move = ctx.cur.to_move.opposite();
            let moves = generate_moves(&b, mode, &ctx.hasher);
            let mut v: Vec<String> = moves.iter().map(succ_str).collect();
            v.sort();
            format!("{} {}", v.len(), v.join(";"))
        }
        "pick" | "pickc" => {
            let mode = if op == "pickc" { MoveGenerationMode::CapturesOnly } else { MoveGenerationMode::AllMoves };
            let moves = generate_moves(&ctx.cur, mode, &ctx.hasher);
            let found: Vec<&BoardState> = moves.iter().filter(|b| verif::move_id(b) == rest).collect();
            if found.len() != 1 {
                return format!("nomove {}", found.len());
            }
            ctx.cur = found[0].clone();
            format!("ok {}", state(&ctx.cur))
        }
        "chk" => format!(
            "{}{}",
            if is_check(&ctx.cur, PieceColor::White) { 1 } else { 0 },
            if is_check(&ctx.cur, PieceColor::Black) { 1 } else { 0 }
        ),
        "eval" => format!("{}", evaluation::get_evaluation(&ctx.cur)),
        "evalflip" => {
            // the same placement with the other side to move, built the way the null move builds it
            let a = evaluation::get_evaluation(&ctx.cur);
            let mut b = ctx.cur.clone();
            b.to_move = ctx.cur.to_move.opposite();
            format!("{} {}", a, evaluation::get_evaluation(&b))
        }
        "mk" => {
            uci::verif_make_move(&mut ctx.cur, rest, &ctx.hasher);
            format!("ok {}", state(&ctx.cur))
        }
        "pos" => {
            // rest = the cleaned command line starting with "position"
            let commands: Vec<&str> = rest.split(' ').collect();
            ctx.table.clear();
            let b = uci::verif_play_out_position(&commands, &ctx.hasher, &mut ctx.table);
            ctx.cur = b;
            format!("ok {} tbl={}", state(&ctx.cur), table_str(&ctx.table))
        }
        "tbl" => table_str(&ctx.table),
        "gocmd" => {
            let commands: Vec<&str> = rest.split(' ').collect();
            let gt = uci::verif_parse_go_command(&commands);
            format!(
                "{} {} {} {} {}",
                gt.wtime,
                gt.btime,
                gt.winc,
                gt.binc,
                gt.movestogo.map_or("-".to_string(), |m| m.to_string())
            )
        }
        "slice" => {
            let t: Vec<&str> = rest.split(' ').collect();
            let gt = time_control::GameTime {
                wtime: t[0].parse().unwrap(),
                btime: t[1].parse().unwrap(),
                winc: t[2].parse().unwrap(),
                binc: t[3].parse().unwrap(),
                movestogo: if t[4] == "-" { None } else { Some(t[4].parse().unwrap()) },
            };
            let color = if t[5] == "w" { PieceColor::White } else { PieceColor::Black };
            format!("{}", gt.calculate_time_slice(color))
        }
        "clean" => escape(&utils::clean_input(&unescape(rest))),
        "trimnl" => {
            let mut s = unescape(rest);
            utils::trim_newline(&mut s);
            escape(&s)
        }
        "fmt" => {
            verif::capture_start();
            let r = catch_unwind(AssertUnwindSafe(|| uci::verif_send_best_move_to_gui(&ctx.cur)));
            let out = verif::capture_take();
            match r {
                Ok(()) => out.join(";"),
                Err(_) => "panic".to_string(),
            }
        }
        "pt" => match Point::from_str(&unescape(rest)) {
            Ok(p) => format!("ok {} {}", p.0, p.1),
            Err(e) => format!("err {}", e),
        },
        "ptdisp" => {
            let t: Vec<usize> = rest.split(' ').map(|x| x.parse().unwrap()).collect();
            format!("{}", Point(t[0], t[1]))
        }
        "search" => {
            // search <k|inf>   (inf only makes sense with a cap: see searchd)
            let k = if rest == "inf" { None } else { Some(rest.parse::<u64>().unwrap()) };
            let o = run_search(ctx, k, None, true);
            format!("{}~ord={}", search_result_str(&o), order_str(&o.order))
        }
        "searchd" => {
            // run until iteration N has completed: first find the query index at which the
            // (N+1)-th root sort happens, then run with exactly that expiry
            let n: u32 = rest.parse().unwrap();
            let probe = run_search(ctx, None, Some(n), false);
            if probe.panicked {
                return format!("k=-~{}~ord=", search_result_str(&probe));
            }
            let k = probe.q_at_cap.unwrap_or(probe.queries);
            let o = run_search(ctx, Some(k), None, true);
            format!("k={}~{}~ord={}", k, search_result_str(&o), order_str(&o.order))
        }
        "sweep" => {
            // sweep <kmax> <stride>: every k in 0..=kmax with k % stride == 0 (and kmax itself)
            let t: Vec<u64> = rest.split(' ').map(|x| x.parse().unwrap()).collect();
            let (kmax, stride) = (t[0], t[1].max(1));
            let big = run_search(ctx, Some(kmax), None, true);
            let mut parts = Vec::new();
            let mut k = 0;
            while k <= kmax {
                let o = if k == kmax { None } else { Some(run_search(ctx, Some(k), None, false)) };
                let o = o.as_ref().unwrap_or(&big);
                parts.push(format!("k={}~{}", k, search_result_str(o)));
                if k == kmax {
                    break;
                }
                k = (k + stride).min(kmax);
            }
            format!("{}~~ord={}", parts.join("~~"), order_str(&big.order))
        }
        "mateinfo" | "matecheck" => "-".to_string(),
        "evalrel" => {
            // evalrel fenA|fenMirror|fenFlip|fenOther : four evaluations
            let mut out = Vec::new();
            for f in rest.split('|') {
                match BoardState::from_fen(f) {
                    Ok(b) => out.push(evaluation::get_evaluation(&b).to_string()),
                    Err(_) => out.push("x".to_string()),
                }
            }
            out.join(" ")
        }
        "zobrist" => {
            let mut out = Vec::new();
            let kinds = [
                PieceKind::King, PieceKind::Queen, PieceKind::Rook, PieceKind::Bishop, PieceKind::Knight, PieceKind::Pawn,
            ];
            for (ci, color) in [PieceColor::White, PieceColor::Black].iter().enumerate() {
                for kind in kinds {
                    let p = Piece { color: *color, kind };
                    for r in 0..12 {
                        for c in 0..12 {
                            out.push(format!(
                                "piece {} {} {} {:016x}",
                                p.index() + 6 * ci,
                                r,
                                c,
                                ctx.hasher.get_val_for_piece(p, Point(r, c))
                            ));
                        }
                    }
                }
            }
            for f in 0..12 {
                out.push(format!("ep {} {:016x}", f, ctx.hasher.get_val_for_en_passant(f)));
            }
            out.push(format!("side {:016x}", ctx.hasher.get_black_to_move_val()));
            use zobrist::CastlingType::*;
            out.push(format!("castle wks {:016x}", ctx.hasher.get_val_for_castling(WhiteKingSide)));
            out.push(format!("castle wqs {:016x}", ctx.hasher.get_val_for_castling(WhiteQueenSide)));
            out.push(format!("castle bks {:016x}", ctx.hasher.get_val_for_castling(BlackKingSide)));
            out.push(format!("castle bqs {:016x}", ctx.hasher.get_val_for_castling(BlackQueenSide)));
            out.join("\n")
        }
        _ => "bad-op".to_string(),
    }
}

fn main() {
    std::panic::set_hook(Box::new(|_| {}));
    let args: Vec<String> = std::env::args().collect();
    let mut ctx = Ctx {
        hasher: ZobristHasher::create_zobrist_hasher(),
        cur: BoardState::from_fen(DEFAULT_FEN_STRING).unwrap(),
        table: DrawTable::new(),
    };
    if args.len() > 1 && args[1] == "zobrist" {
        println!("{}", do_op(&mut ctx, "zobrist"));
        return;
    }
    let stdin = io::stdin();
    let stdout = io::stdout();
    let mut out = io::BufWriter::new(stdout.lock());
    for line in stdin.lock().lines() {
        let line = match line {
            Ok(l) => l,
            Err(_) => break,
        };
        if line.is_empty() || line.starts_with('#') {
            continue;
        }
        let saved_cur = ctx.cur.clone();
        let saved_table = ctx.table.clone();
        let r = catch_unwind(AssertUnwindSafe(|| do_op(&mut ctx, &line)));
        let text = match r {
            Ok(t) => t,
            Err(_) => {
                // leave the context as it was before the op (the model does the same)
                ctx.cur = saved_cur;
                ctx.table = saved_table;
                verif::clock_remove();
                verif::capture_take();
                verif::order_take();
                "panic".to_string()
            }
        };
        writeln!(out, "I {}", text).unwrap();
    }
    out.flush().unwrap();
}
