"""Black-box UCI sessions against the real release binary (hooks off)."""
import os
import queue
import subprocess
import threading
import time

import common as C


class Engine:
    def __init__(self, cwd=None, binary=None, env=None):
        e = dict(os.environ)
        if env:
            e.update(env)
        self.p = subprocess.Popen([binary or C.ENGINE], stdin=subprocess.PIPE, stdout=subprocess.PIPE,
                                  stderr=subprocess.PIPE, bufsize=0, cwd=cwd or C.BUILD, env=e)
        self.q = queue.Queue()
        self.lines = []          # (t, text) everything seen so far
        self.t = threading.Thread(target=self._reader, daemon=True)
        self.t.start()
        self.err = []
        self.te = threading.Thread(target=self._ereader, daemon=True)
        self.te.start()

    def _reader(self):
        for raw in iter(self.p.stdout.readline, b""):
            self.q.put((time.time(), raw.decode("utf-8", "replace").rstrip("\r\n")))
        self.q.put((time.time(), None))

    def _ereader(self):
        for raw in iter(self.p.stderr.readline, b""):
            self.err.append(raw.decode("utf-8", "replace").rstrip())

    def send(self, line):
        try:
            self.p.stdin.write((line + "\n").encode("utf-8"))
            self.p.stdin.flush()
        except (BrokenPipeError, OSError):
            pass
        return time.time()

    def send_raw(self, data):
        try:
            self.p.stdin.write(data)
            self.p.stdin.flush()
        except (BrokenPipeError, OSError):
            pass
        return time.time()

    def read_until(self, pred, timeout):
        """collect lines until pred(line) is true; returns (lines[(t,text)], matched?)"""
        out = []
        end = time.time() + timeout
        while True:
            rem = end - time.time()
            if rem <= 0:
                return out, False
            try:
                t, text = self.q.get(timeout=rem)
            except queue.Empty:
                return out, False
            if text is None:
                return out, False
            self.lines.append((t, text))
            out.append((t, text))
            if pred(text):
                return out, True

    def drain(self, wait):
        out, _ = self.read_until(lambda _l: False, wait)
        return out

    def close_stdin(self):
        try:
            self.p.stdin.close()
        except OSError:
            pass
        return time.time()

    def wait_exit(self, timeout):
        try:
            self.p.wait(timeout=timeout)
            return self.p.returncode
        except subprocess.TimeoutExpired:
            return None

    def kill(self):
        try:
            self.p.kill()
        except OSError:
            pass
        try:
            self.p.wait(timeout=2)
        except Exception:
            pass


def handshake(e, timeout=5.0):
    e.send("uci")
    _, ok = e.read_until(lambda l: l == "uciok", timeout)
    return ok


def go_and_wait(e, go_line, timeout):
    """send go, wait for the first bestmove; then isready/readyok to fence the output.
    returns dict(t_go, t_best, best, infos, n_best, ready)"""
    t_go = e.send(go_line)
    lines, ok = e.read_until(lambda l: l.startswith("bestmove"), timeout)
    res = {"t_go": t_go, "answered": ok, "infos": [l for _, l in lines if l.startswith("info")],
           "best": None, "t_best": None, "n_best": 0, "ready": False, "other": []}
    if not ok:
        return res
    res["t_best"] = lines[-1][0]
    res["best"] = lines[-1][1]
    e.send("isready")
    more, ready = e.read_until(lambda l: l == "readyok", 5.0)
    res["ready"] = ready
    res["n_best"] = 1 + sum(1 for _, l in more if l.startswith("bestmove"))
    res["other"] = [l for _, l in lines[:-1] if not l.startswith("info")] + [l for _, l in more if l != "readyok" and not l.startswith("bestmove")]
    return res


def run_parallel(fn, items, workers=8):
    from concurrent.futures import ThreadPoolExecutor
    with ThreadPoolExecutor(max_workers=workers) as ex:
        return list(ex.map(fn, items))


# ------------------------------------------------------------------------------------------------
# traced sessions (hook H5): the hook-enabled binary prints `verifstate ...` at the top of its UCI
# loop, i.e. after every command has been fully served; the session below is therefore driven in
# lock step and is deterministic as long as every `go` has a zero time slice.

SEP = "\x1e"


def esc_line(s):
    out = []
    for ch in s:
        o = ord(ch)
        if ch == "\n":
            out.append("\\n")
        elif ch == "\r":
            out.append("\\r")
        elif ch == "\t":
            out.append("\\t")
        elif ch == "\\":
            out.append("\\\\")
        elif o < 0x20 or o >= 0x7f:
            out.append("\\u{%x}" % o)
        else:
            out.append(ch)
    return "".join(out)


def traced_session(items, ending):
    """items: list of str (raw line) or callable(answers)->str (line built from the engine's earlier
    answers); ending: 'eof' | 'quit' | ('partial', text).  Returns (transcript, entries, problem):
    transcript = what the process printed from `uciok` on (+ 'exit N'), entries = the script as the
    model must see it (raw line, U+001E, the engine's answer for go lines), and the exact bytes written
    to the process's standard input."""
    e = Engine(binary=C.ENGINE_TRACE, env={"WALLEYE_VERIF_TRACE": "1"})
    transcript = []
    entries = ["uci"]
    answers = []
    sent = ["uci\n"]          # exactly the bytes written to the process
    try:
        e.send("uci")
        lines, ok = e.read_until(lambda l: l.startswith("verifstate "), 10.0)
        if not ok:
            return None, None, "no state trace after the handshake (hook H5 missing?)", ""
        seen = [l for _, l in lines]
        if "uciok" not in seen:
            return None, None, "no uciok", ""
        transcript = seen[seen.index("uciok"):]
        alive = True
        for it in items:
            line = it(answers) if callable(it) else it
            e.send(line)
            sent.append(line + "\n")
            lines, ok = e.read_until(lambda l: l.startswith("verifstate "), 10.0)
            got = [l for _, l in lines]
            transcript += got
            ans = [l for l in got if l.startswith("bestmove ")]
            if ans:
                answers.append(ans[-1].split(" ")[1] if " " in ans[-1] else "")
            entries.append(line + (SEP + answers[-1] if ans else ""))
            if not ok:
                alive = False
                break
        if alive:
            if ending == "quit":
                e.send("quit")
                entries.append("quit")
                sent.append("quit\n")
            elif isinstance(ending, tuple):
                e.send_raw(ending[1].encode("utf-8"))
                entries.append(ending[1])
                sent.append(ending[1])
                e.close_stdin()
            else:
                e.close_stdin()
            tail, _ = e.read_until(lambda l: False, 3.0)
            transcript += [l for _, l in tail]
            ans = [l for _, l in tail if l.startswith("bestmove ")]
            if ans and isinstance(ending, tuple):
                # an unterminated last line is still a command (e.g. `go`): its answer belongs to it
                entries[-1] += SEP + (ans[-1].split(" ")[1] if " " in ans[-1] else "")
        rc = e.wait_exit(5.0)
        transcript.append("exit %s" % ("none" if rc is None else (rc if rc >= 0 else 128 - rc)))
        return transcript, entries, None, "".join(sent)
    finally:
        e.kill()
