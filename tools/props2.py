"""Checks for evaluation, time, FEN, UCI text, repetition, search and the black-box sessions."""
import json
import os
import random
import re
import subprocess
import time
import zlib
from fractions import Fraction

import common as C
import session as S
from props import (Ctx, run_and_compare, oracle_state, oracle_gen, context_ops, attach_context,
                   compare_batch)

MATE = 100000
POS_INF = 9999999
MATE_WINDOW = 15


def consts():
    """constants as the translator sees them now (T1 output)"""
    txt = open(os.path.join(C.LEAN, "Walleye", "Generated", "Consts.lean"), encoding="utf-8").read()

    def g(name, default):
        m = re.search(r"def %s : \w+ := \(?(-?\d+)\)?" % name, txt)
        return int(m.group(1)) if m else default
    return {"mate": g("mateScore", MATE), "inf": g("posInf", POS_INF), "window": g("mateWindow", MATE_WINDOW),
            "safeguard": g("safeguardMs", 100), "game_length": g("gameLength", 30),
            "usage": Fraction(g("maxUsageNum", 8), g("maxUsageDen", 10))}


# =====================================================================================
# C14 evaluation
# =====================================================================================

def check_C14(ctx, deep=False):
    k = consts()
    ctx.rule = ("`evalrel`: evaluation of a placement, of its colour mirror, of the same placement with the other side to "
                "move, and of the same placement/side with other rights, ep and counters; single-piece basis (12 pieces x 64 "
                "squares, exhaustive) + random arbitrary-material placements (1..64 men, any kinds, pawns anywhere); "
                "non-trivial = evaluation != 0")
    n = (3000 if ctx.quick else 200000) * (4 if deep else 1)
    ops = C.genops("eval", ctx.seed, n)
    res = C.run_ops(ops)
    mx = 0
    for r in res:
        if r["M"] != r["I"]:
            ctx.t2diff(r)
        ctx.traces += 1
        v = r["I"].split(" ")
        if len(v) != 4 or "x" in v or r["I"] == "panic":
            ctx.fail("eval-unavailable", op=r["op"][:300], impl=r["I"])
            continue
        a, b, c, d = [int(x) for x in v]
        ctx.case(r["op"], a != 0)
        mx = max(mx, abs(a))
        if a != b:
            ctx.fail("mirror", op=r["op"], position=a, mirrored=b)
        if c != -a:
            ctx.fail("side-flip", op=r["op"], position=a, other_side=c)
        if d != a:
            ctx.fail("depends-on-more-than-placement-and-side", op=r["op"], position=a, other=d)
        if abs(a) >= k["mate"] - k["window"]:
            ctx.fail("bound", op=r["op"], value=a)
        elif a != 0:
            ctx.sample({"op": r["op"][:120], "evals": r["I"]})
    ctx.stats["max_abs_eval_seen"] = mx
    # positions as the engine itself builds them (generated successors; null-move twins): the value
    # must not depend on how the board value was produced or on what was evaluated before
    wops = []
    for o in C.genops("walk", ctx.seed + 1, 40 if ctx.quick else 1500, 50, 0):
        if o.split(" ")[0] in ("fen", "pick"):
            wops += [o, "evalflip"]
    wres = C.run_ops(wops)
    for i, r in enumerate(wres):
        if r["M"] != r["I"]:
            ctx.t2diff(r)
        if r["op"] != "evalflip":
            continue
        ctx.traces += 1
        v = r["I"].split(" ")
        if len(v) != 2:
            ctx.fail("eval-unavailable", op=r["op"], impl=r["I"])
            continue
        a, b = int(v[0]), int(v[1])
        ctx.case(("flip", i, a), a != 0)
        if b != -a:
            j = i
            while j > 0 and not wres[j]["op"].startswith("fen "):
                j -= 1
            ctx.fail("side-flip-of-an-in-memory-board", ops=[x["op"] for x in wres[j:i + 1] if x["op"] != "evalflip"] + ["evalflip"],
                     position=a, other_side=b)
    # boards built by the TEXT applier (`position ... moves`, incl. every special two-ply chain: promotions,
    # castling, en passant): "depends on nothing but placement and side to move" — the value must be that of the
    # same placement read from a FEN (second pass over the states the first pass produced)
    tops = []
    for o in C.genops("pairs", 0, 1) + [x for x in C.genops("walk", ctx.seed + 2, 20 if ctx.quick else 600, 60, 0)]:
        kd = o.split(" ")[0]
        if kd == "fen":
            tops.append(o)
        elif kd == "pick":
            tops += ["mk " + o[5:], "evalflip"]
    tres = C.run_ops(tops)
    fops, firsts = [], []
    for i, r in enumerate(tres):
        if r["M"] != r["I"]:
            ctx.t2diff(r)
        if r["op"] == "evalflip" and i and tres[i - 1]["op"].startswith("mk ") and tres[i - 1]["I"].startswith("ok "):
            st = tres[i - 1]["I"][3:].split(" ")
            fops += ["fen %s %s %s %s 0 1" % (st[0], st[1], st[2], st[3]), "evalflip"]
            firsts.append(i)
    fres = C.run_ops(fops) if fops else []
    for j, i in enumerate(firsts):
        ctx.traces += 1
        a, b = tres[i]["I"], fres[2 * j + 1]["I"]
        ctx.case(("text-board", i), a.split(" ")[0] not in ("0", "panic"))
        if a != b:
            k0 = i
            while k0 > 0 and not tres[k0]["op"].startswith("fen "):
                k0 -= 1
            ctx.fail("value-depends-on-how-the-board-was-built", ops=[x["op"] for x in tres[k0:i + 1] if x["op"] != "evalflip"] + ["evalflip"],
                     by_text_replay=a, same_placement_from_fen=b, fen=fops[2 * j][4:])
    # the evaluation AS THE SEARCH CONSUMES IT (stand-pat value of the capture search, also on the null-move
    # twins the search builds itself from iteration 4 on): the search of the real code against the model's
    # search, which evaluates with the modelled pure function at every leaf — a value that depends on anything
    # else (what was evaluated before, how the board was produced) shows as a different node count or score
    sres = C.run_ops(search_positions(ctx, 8 if ctx.quick else 120, 30, "searchd 4", with_rep=False))
    t2_search(ctx, sres)
    ctx.count("searches_with_null_move_twins", sum(1 for r in sres if r["op"].startswith("searchd")))


# =====================================================================================
# C09 time slice
# =====================================================================================

def slice_ops(ctx, deep):
    rnd = random.Random(ctx.seed)
    lattice = [-2 ** 127, -10 ** 30, -1, 0, 1, 50, 99, 100, 101, 102, 149, 1000, 60000, 2 ** 31, 2 ** 53 - 1, 2 ** 53 + 1,
               2 ** 63, 10 ** 30, 2 ** 127 - 1]
    mtgs = ["-", "0", "1", "2", "29", "30", "31", "40", str(2 ** 32 - 1)]
    ops = []
    for clock in lattice:
        for inc in lattice:
            for mtg in mtgs:
                for col in "wb":
                    other = rnd.choice(lattice)
                    other_inc = rnd.choice(lattice)
                    if col == "w":
                        ops.append("slice %d %d %d %d %s w" % (clock, other, inc, other_inc, mtg))
                    else:
                        ops.append("slice %d %d %d %d %s b" % (other, clock, other_inc, inc, mtg))
    n = (20000 if ctx.quick else 2000000) * (4 if deep else 1)
    for _ in range(n):
        mag = rnd.choice([8, 12, 20, 40, 64, 100, 126])
        clock = rnd.randrange(-2 ** mag, 2 ** mag) if rnd.random() < 0.3 else rnd.randrange(0, 2 ** mag)
        if rnd.random() < 0.3:
            clock = rnd.randrange(-50, 400)
        inc = rnd.choice([0, 0, rnd.randrange(-100, 5000), rnd.randrange(-2 ** mag, 2 ** mag)])
        mtg = rnd.choice(["-", "-", str(rnd.randrange(0, 100)), str(rnd.randrange(0, 2 ** 32)), "0"])
        col = rnd.choice("wb")
        other = rnd.randrange(-2 ** mag, 2 ** mag)
        oinc = rnd.randrange(-2 ** 20, 2 ** 20)
        if col == "w":
            ops.append("slice %d %d %d %d %s w" % (clock, other, inc, oinc, mtg))
        else:
            ops.append("slice %d %d %d %d %s b" % (other, clock, oinc, inc, mtg))
    return ops


# the numbers the PROPERTY names (100 ms margin, 30 moves, 80 %) — not the ones the source has now
C09_PROPERTY = {"safeguard": 100, "game_length": 30, "usage": Fraction(4, 5)}


def check_C09(ctx, deep=False):
    k = dict(consts(), **C09_PROPERTY)
    ctx.rule = ("`slice`: boundary lattice of clock x increment x movestogo x colour (exhaustive over the lattice) plus random "
                "i128 clocks; exact rational oracle: slice <= max(clock,0); clock>margin => slice <= usage*(clock-margin)/mtg "
                "(+ whole-ms rounding); clock<=margin and inc<=0 => 0; result independent of the opponent's fields; "
                "black box: measured go->bestmove delay vs planned slice; non-trivial = slice > 0")
    ops = slice_ops(ctx, deep)
    res = C.run_ops(ops)
    seen = {}
    for r in res:
        if r["M"] != r["I"]:
            ctx.t2diff(r)
        ctx.traces += 1
        t = r["op"].split(" ")
        wt, bt, wi, bi = int(t[1]), int(t[2]), int(t[3]), int(t[4])
        # moves to go: the number told, 30 when not told — and a told 0 reads as not told (the
        # quotient of the property would not exist; fix e30d5a0)
        mtg = k["game_length"] if t[5] in ("-", "0") else int(t[5])
        col = t[6]
        clock, inc = (wt, wi) if col == "w" else (bt, bi)
        if r["I"] == "panic" or not r["I"].isdigit():
            ctx.fail("slice-panic", op=r["op"], impl=r["I"])
            continue
        s = int(r["I"])
        ctx.case(r["op"], s > 0)
        key = (clock, inc, t[5], )
        if key in seen and seen[key][0] != s:
            ctx.fail("depends-on-opponent-fields", op=r["op"], other_op=seen[key][1], slice_a=s, slice_b=seen[key][0])
        seen.setdefault(key, (s, r["op"]))
        if s > max(clock, 0):
            ctx.fail("exceeds-clock", op=r["op"], slice=s, clock=clock)
        if clock > k["safeguard"]:
            bound = k["usage"] * (clock - k["safeguard"]) / mtg
            # binary64 rounding: relative 2^-50 is generous; +1 for rounding to whole milliseconds
            if Fraction(s) > bound * (1 + Fraction(1, 2 ** 50)) + 1:
                ctx.fail("exceeds-80-percent-share", op=r["op"], slice=s, bound=float(bound))
            elif s > 0:
                ctx.sample({"op": r["op"], "slice": s})
        elif inc <= 0 and s != 0:
            ctx.fail("nonzero-without-clock-and-increment", op=r["op"], slice=s)
    # gocmd -> slice composition through the parser
    gops = []
    rnd = random.Random(ctx.seed + 1)
    for _ in range(300):
        wt, bt = rnd.randrange(-5, 100000), rnd.randrange(-5, 100000)
        gops.append("gocmd go wtime %d btime %d winc %d binc %d movestogo %d" % (wt, bt, rnd.randrange(0, 3000), rnd.randrange(0, 3000), rnd.randrange(1, 60)))
    for r in C.run_ops(gops):
        if r["M"] != r["I"]:
            ctx.t2diff(r)
        t = r["op"].split(" ")
        exp = "%s %s %s %s %s" % (t[3], t[5], t[7], t[9], t[11])
        if r["I"] != exp:
            ctx.fail("go-parse", op=r["op"], impl=r["I"], expected=exp)
    if ctx.bs.engine_error:
        ctx.notes.append("engine binary unavailable: " + ctx.bs.engine_error[-200:])
        return
    # black box: measured delay
    cases = [("w", 400, 0, None), ("w", 3100, 0, None), ("b", 2100, 0, 10), ("w", 80, 0, None), ("b", 60, 500, None),
             ("w", 1100, 0, 2), ("b", 9100, 0, None), ("w", 1000, 0, 0), ("b", 3100, 0, 0)]
    if not ctx.quick:
        cases = cases * 4
    cases = [c + (None,) for c in cases]
    # "the actual delay equals that plan": also on positions whose capture search alone takes far longer
    # than the slice (queen lattices, SPEC-checked variants) — whatever happens to the search thread,
    # the answer is due when the slice is over
    for o in C.genops("heavy", ctx.seed + 8, 6 if ctx.quick else 40):
        if o.startswith("pos position fen "):
            side = o.split(" ")[4]
            cases.append((side, 700, 0, None, o[4:]))
            cases.append((side, 2100, 0, 10, o[4:]))

    def one(case):
        col, clock, inc, mtg, pos = case
        planned = plan(k, clock, inc, mtg)
        worst = None
        for attempt in range(4):
            e = S.Engine()
            try:
                if not S.handshake(e):
                    return ("no-handshake", case, None, planned)
                if pos:
                    e.send(pos)
                elif col == "b":
                    e.send("position startpos moves e2e4")
                else:
                    e.send("position startpos")
                go = "go wtime %d btime %d winc %d binc %d" % ((clock, 99999, inc, 0) if col == "w" else (99999, clock, 0, inc))
                if mtg is not None:
                    go += " movestogo %d" % mtg
                r = S.go_and_wait(e, go, planned / 1000.0 + 10)
                if not r["answered"]:
                    return ("unanswered", case, None, planned)
                delay = (r["t_best"] - r["t_go"]) * 1000
                if planned - 5 <= delay <= planned + 300:
                    return ("ok", case, delay, planned)
                worst = delay
            finally:
                e.kill()
        return ("delay", case, worst, planned)
    for status, case, delay, planned in S.run_parallel(one, cases, workers=4):
        ctx.case(("timed", case), True)
        ctx.count("timed_sessions")
        if status != "ok":
            ctx.fail("measured-delay", status=status, case=list(case), delay_ms=delay, planned_ms=planned)
        else:
            ctx.sample({"go": list(case), "planned_ms": planned, "measured_ms": round(delay, 1)})
    # "for the measured delay, all positions and schedules": under forced interleavings of the two threads (hook H6)
    # every go must still be answered (the pauses themselves are not part of the plan, so no delay is judged here)
    handover_sessions(ctx, 1 if ctx.quick else 10, "C09")
    # black box: the plan of a go depends on THAT go's parameters only — every ordered pair of
    # parameter classes (movestogo small / absent / other, increment branch) in one process, with
    # and without ucinewgame in between; each delay is judged against its own plan
    # (the last class: clock at or below the margin and NO increment tokens at all => plan 0, whatever an
    # earlier go of the session said about increments)
    classes = [(350, 0, 1), (3100, 0, None), (60, 200, None), (1600, 0, 10), (9100, 0, None), (95, 0, None)]
    pairs = [(a, b, sep) for a in classes for b in classes if a != b for sep in ("", "ucinewgame")]

    def two(pr):
        a, b, sep = pr
        worst = None
        for attempt in range(4):
            e = S.Engine()
            try:
                if not S.handshake(e):
                    return ("no-handshake", pr, None, None)
                bad = None
                for idx, (clock, inc, mtg) in enumerate((a, b)):
                    if idx == 1 and sep:
                        e.send(sep)
                    e.send("position startpos")
                    # the opponent's clock is a decoy with a plan of its own (800 ms): a plan made from the
                    # wrong side, or from a board that is not the one just set up, shows in the delay
                    go = "go wtime %d btime %d" % (clock, 30100)
                    if inc:
                        go += " winc %d binc %d" % (inc, 0)       # no increment: the tokens are omitted
                    if mtg:
                        go += " movestogo %d" % mtg
                    planned = plan(k, clock, inc, mtg)
                    r = S.go_and_wait(e, go, planned / 1000.0 + 12)
                    if not r["answered"]:
                        return ("unanswered", pr, None, planned)
                    delay = (r["t_best"] - r["t_go"]) * 1000
                    # a zero plan is answered at once: a few tens of ms already are a plan of their own
                    if not (planned - 5 <= delay <= planned + (300 if planned > 0 else 60)):
                        bad = (idx, delay, planned)
                        break
                if bad is None:
                    return ("ok", pr, None, None)
                worst = bad
            finally:
                e.kill()
        return ("delay", pr, worst[1], worst[2], worst[0])
    for res in S.run_parallel(two, pairs, workers=6):
        status, pr = res[0], res[1]
        ctx.case(("timed-pair", pr), True)
        ctx.count("timed_pair_sessions")
        if status != "ok":
            ctx.fail("measured-delay-after-earlier-go", status=status, first=list(pr[0]), second=list(pr[1]),
                     between=pr[2], delay_ms=res[2], planned_ms=res[3], which_go=(res[4] if len(res) > 4 else None))


def plan(k, clock, inc, mtg):
    mtg = mtg or k["game_length"]          # None or 0: not told
    if clock > k["safeguard"]:
        return float(round(k["usage"] * (clock - k["safeguard"]) / mtg))
    if inc > 0:
        return float(min(round(k["usage"] * inc), max(clock, 0)))
    return 0.0


# =====================================================================================
# C15 FEN
# =====================================================================================

def esc(s):
    out = []
    for ch in s:
        o = ord(ch)
        if ch == "\n":
            out.append("\\n")
        elif ch == "\r":
            out.append("\\r")
        elif ch == "\t":
            out.append("\\t")
        elif ch == "\\":
            out.append("\\\\")
        elif o < 0x20 or o >= 0x7f:
            out.append("\\u{%x}" % o)
        else:
            out.append(ch)
    return "".join(out)


WEIRD = ["é", "ß", "漢", " ", " ", "😀", "١", "\x00", "\x7f", "+", "-", " ", "/", "9", "0", "K", "x", "\t", "\r", "\n"]


def mutate_fen(rnd, fen):
    f = fen.split(" ")
    kind = rnd.randrange(16)
    if kind == 0:
        del f[rnd.randrange(len(f))]
    elif kind == 1:
        i = rnd.randrange(len(f))
        f.insert(i, f[i])
    elif kind == 2:
        i, j = rnd.randrange(len(f)), rnd.randrange(len(f))
        f[i], f[j] = f[j], f[i]
    elif kind == 3:
        i = rnd.randrange(len(f))
        pos = rnd.randrange(len(f[i]) + 1)
        f[i] = f[i][:pos] + rnd.choice(WEIRD) + f[i][pos:]
    elif kind == 4:
        i = rnd.randrange(len(f))
        if f[i]:
            pos = rnd.randrange(len(f[i]))
            f[i] = f[i][:pos] + rnd.choice(WEIRD) + f[i][pos + 1:]
    elif kind == 5:
        rows = f[0].split("/")
        if rnd.random() < 0.5 and len(rows) > 1:
            del rows[rnd.randrange(len(rows))]
        else:
            rows.insert(rnd.randrange(len(rows) + 1), rnd.choice(rows))
        f[0] = "/".join(rows)
    elif kind == 6:
        f[3] = rnd.choice(["ex", "é", "e", "e33", "z9", "a0", "a9", "i3", "E3", "3e", "--", "", "e٣", "éé", "h8", "a1"])
    elif kind == 7:
        f[rnd.choice([4, 5])] = rnd.choice(["+5", "-0", "-1", "", "1e3", "0x10", "4294967295", "4294967296", "99999999999999999999", " 7", "７", "00", "255", "256", "+", "-"])
    elif kind == 8:
        f[1] = rnd.choice(["W", "B", "", "wb", "white", "-", "w ", "é"])
    elif kind == 9:
        f[2] = rnd.choice(["", "KQkqKQkq", "qkQK", "AHah", "-", "--", "K-", "é", "kq "])
    elif kind == 10:
        return fen + rnd.choice(["\n", "\r\n", "\r", "\n\n", " ", "\r\n\r\n", "\t"])
    elif kind == 11:
        return rnd.choice([" ", "\n", ""]) + fen
    elif kind == 12:
        return fen[:rnd.randrange(len(fen) + 1)]
    elif kind == 13:
        rows = f[0].split("/")
        i = rnd.randrange(len(rows))
        rows[i] = rows[i] + rnd.choice(["1", "8", "p", "9", "0"])
        f[0] = "/".join(rows)
    elif kind == 14:
        return fen.replace(" ", "  ", 1)
    else:
        return "".join(rnd.choice(WEIRD + list("rnbqkpRNBQKP12345678/ wb-")) for _ in range(rnd.randrange(0, 60)))
    return " ".join(f)


def check_C15(ctx, deep=False):
    ctx.rule = ("valid stream: FEN printed by the SPEC for constructed/playout legal positions with counters in "
                "{1,2,40,255,256,300,65535,10^6} (must load, seven fields equal to the SPEC's own reading); malformed stream: "
                "16 field-wise mutation kinds incl. multi-byte characters in every field (must return ok or err, never panic); "
                "all two-byte UTF-8 strings through the square parser (exhaustive); CLI runs of the real binary (exit status 0); "
                "non-trivial = distinct input string that is accepted or hits a distinct error class")
    rnd = random.Random(ctx.seed)
    n = (1500 if ctx.quick else 60000) * (4 if deep else 1)
    base = [o for o in C.genops("fenpos", ctx.seed, n) if o.startswith("fen ")]
    base += [o for o in C.genops("walk", ctx.seed + 1, 30 if ctx.quick else 500, 60, 0) if o.startswith("fen ")]
    valid = [o[4:] for o in base]
    # every one of these texts was checked by the generator to be canonText of its position (Spec/CanonFen.lean),
    # i.e. an instance of the text theorem fromFen_canonical speaks about
    ctx.stats["valid_fens_equal_to_canonical_text"] = len(valid)
    ops = list(base)
    # trailing newline variants of valid FENs are still well formed for the loader
    for fen in valid[: len(valid) // 10]:
        ops.append("fen " + esc(fen + rnd.choice(["\n", "\r\n"])))
    mal = []
    for fen in valid:
        for _ in range(2):
            mal.append(mutate_fen(rnd, fen))
    ops += ["fen " + esc(m) for m in mal]
    # overfull ranks, systematically: a rank text that already fills the eight files (digits expand) followed by
    # 1..7 further piece letters, in every rank of the board: the extra squares lie in the mailbox's sentinel
    # columns and beyond (must be an error, never a panic)
    ranks = "rnbqkbnr/pppppppp/8/8/8/8/PPPPPPPP/RNBQKBNR".split("/")
    for ri in range(8):
        for full in ("8", "44", "53", "7R", "pppppppp", "1p1p1p1p", "611"):
            for k in range(1, 8):
                extra = "pPnRqKb"[:k] if (ri + k) % 2 else "PPPPPPP"[:k]
                rr = list(ranks)
                rr[ri] = full + extra
                ops.append("fen " + esc("/".join(rr) + " w KQkq - 0 1"))
    res = C.run_ops(ops)
    attach_context(res)
    classes = {}
    for r in res:
        if r["M"] != r["I"]:
            ctx.t2diff(r)
        ctx.traces += 1
        cls = r["I"].split(" ")[0] if not r["I"].startswith("err") else r["I"]
        classes[cls] = classes.get(cls, 0) + 1
        ctx.case(r["op"], True)
        if r["I"] == "panic":
            ctx.fail("fen-panic", op=r["op"])
        elif r["S"] != "-":
            # the SPEC reads this string as the FEN of a legal position: it must be accepted, faithfully
            if not r["I"].startswith("ok "):
                ctx.fail("wellformed-fen-rejected", op=r["op"], impl=r["I"])
            elif C.state7(r["I"][3:]) != r["S"]:
                ctx.fail("fen-misread", op=r["op"], impl=C.state7(r["I"][3:]), spec=r["S"])
            else:
                ctx.sample({"op": r["op"][:140]})
    ctx.stats["outcome_classes"] = classes
    # square parser: every two-byte UTF-8 string
    pops = []
    for a in range(128):
        for b in range(128):
            if a == 10 or b == 10:
                continue
            pops.append("pt " + esc(chr(a) + chr(b)))
    for cp in range(0x80, 0x800):
        pops.append("pt " + esc(chr(cp)))
    pres = C.run_ops(pops)
    for r in pres:
        if r["M"] != r["I"]:
            ctx.t2diff(r)
        txt = r["op"][3:]
        ctx.case(r["op"], r["I"].startswith("ok"))
        m = re.fullmatch(r"([a-h])([1-8])", txt)
        if r["I"] == "panic":
            ctx.fail("square-parser-panic", op=r["op"])
        elif m:
            exp = "ok %d %d" % (10 - int(m.group(2)), ord(m.group(1)) - 97 + 2)
            if r["I"] != exp:
                ctx.fail("square-misparsed", op=r["op"], impl=r["I"], expected=exp)
        elif r["I"].startswith("ok"):
            ctx.fail("square-accepted", op=r["op"], impl=r["I"])
    ctx.stats["square_parser_inputs"] = len(pops)
    # CLI
    if ctx.bs.engine_error:
        ctx.notes.append("engine binary unavailable")
        return
    cli = [m for m in mal if "\x00" not in m][: (60 if ctx.quick else 1500)] + valid[:20] + \
        ["rnbqkbnr/pppppppp/8/8/8/8/PPPPPPPP/RNBQKBNR w KQkq ex 0 1", "rnbqkbnr/pppppppp/8/8/8/8/PPPPPPPP/RNBQKBNR w KQkq é 0 1",
         "rnbqkbnr/pppppppp/8/8/8/8/PPPPPPPP/RNBQKBNR w KQkq - 0 300", ""]

    def run_cli(fen):
        try:
            p = subprocess.run([C.ENGINE, "--fen=" + fen, "-T", "-d", "1"], capture_output=True, timeout=20)
            return fen, p.returncode, p.stdout.decode("utf-8", "replace"), p.stderr.decode("utf-8", "replace")
        except subprocess.TimeoutExpired:
            return fen, "timeout", "", ""
        except (ValueError, OSError) as e:
            return fen, "skip", "", repr(e)
    for fen, rc, out, err in S.run_parallel(run_cli, cli, workers=8):
        if rc == "skip":
            continue
        ctx.count("cli_runs")
        ctx.case(("cli", fen), True)
        if rc != 0 or "panicked" in err:
            ctx.fail("cli-abnormal-exit", fen=fen, exit=rc, stderr=err[-300:])
        elif not (out.startswith("Searched to a depth") or out.strip()):
            ctx.fail("cli-no-message", fen=fen, stdout=out[:200])


# =====================================================================================
# C17 (op level) + lifecycle sessions
# =====================================================================================

RUST_WS = set([9, 10, 11, 12, 13, 0x20, 0x85, 0xA0, 0x1680, 0x2028, 0x2029, 0x202F, 0x205F, 0x3000] + list(range(0x2000, 0x200B)))


def py_clean(s):
    out = []
    cur = []
    for ch in s:
        if ord(ch) in RUST_WS:
            if cur:
                out.append("".join(cur))
                cur = []
        else:
            cur.append(ch)
    if cur:
        out.append("".join(cur))
    return " ".join(out)


KNOWN_GO = ["wtime", "btime", "winc", "binc", "movestogo"]


def check_C17(ctx, deep=False):
    ctx.rule = ("`clean`: random strings over whitespace of every Unicode class, letters, multi-byte characters (oracle: "
                "split on White_Space, join with one blank); `gocmd`: known pairs with unknown tokens interleaved (oracle: the "
                "pairs' values); black-box sessions with garbage lines interleaved, `quit`, and end of input at a random point "
                "(process must exit, state must be untouched); non-trivial = input contains whitespace runs / unknown tokens")
    rnd = random.Random(ctx.seed)
    n = (6000 if ctx.quick else 300000) * (4 if deep else 1)
    alphabet = [" ", " ", "\t", "\r", " ", " ", "　", "\u0085", "\x0b", "\x0c", "​", "\x1c", "a", "b", "go", "é", "漢", "1", "-", " "]
    ops = []
    for _ in range(n):
        s = "".join(rnd.choice(alphabet) for _ in range(rnd.randrange(0, 24)))
        ops.append("clean " + esc(s))
    gexp = {}
    for _ in range(n // 3):
        toks = ["go"]
        exp = {"wtime": "0", "btime": "0", "winc": "0", "binc": "0", "movestogo": "-"}
        for _ in range(rnd.randrange(0, 8)):
            if rnd.random() < 0.6:
                kk = rnd.choice(KNOWN_GO)
                v = str(rnd.randrange(1, 2 ** 31)) if kk == "movestogo" else str(rnd.choice([0, -1, 5, rnd.randrange(-2 ** 100, 2 ** 100)]))
                toks += [kk, v]
                exp[kk] = v
            else:
                toks.append(rnd.choice(["infinite", "ponder", "depth", "foo", "searchmoves", "é", "w-time", "WTIME", "movetime", "nodes", "mate"]))
        if rnd.random() < 0.2:
            toks.append(rnd.choice(KNOWN_GO))      # dangling known token without a value
        op = "gocmd " + " ".join(toks)
        gexp[op] = "%s %s %s %s %s" % (exp["wtime"], exp["btime"], exp["winc"], exp["binc"], exp["movestogo"])
        ops.append(op)
    res = C.run_ops(ops)
    for r in res:
        if r["M"] != r["I"]:
            ctx.t2diff(r)
        ctx.traces += 1
        if r["op"].startswith("clean "):
            raw = unesc(r["op"][6:])
            exp = esc(py_clean(raw))
            ctx.case(r["op"], any(ord(c) in RUST_WS for c in raw))
            if r["I"] != exp:
                ctx.fail("clean", op=r["op"], impl=r["I"], expected=exp)
        else:
            ctx.case(r["op"], True)
            if r["I"] != gexp[r["op"]]:
                ctx.fail("go-unknown-tokens", op=r["op"], impl=r["I"], expected=gexp[r["op"]])
            else:
                ctx.sample({"op": r["op"][:120], "parsed": r["I"]})
    if ctx.bs.engine_error:
        ctx.notes.append("engine binary unavailable")
        return
    lifecycle_sessions(ctx, 30 if ctx.quick else 400)
    ending_sessions(ctx)
    run_traced(ctx, ["garbage", "cont"], 10 if ctx.quick else 80)
    responsive_after_heavy_go(ctx)


ENDING_TAILS = [b"", b"\n", b"\n\n\n", b"   \n", b"\t\n", b"\r\n", b" \t \r\n", b"   ", b"\t", b"\r", b"isrea", b"isready",
                b"foo\n", b"foo", b"foo   ", b"\xc3\xa9\n", b"\xe3\x80\x80\n", b"go", b"\n   ", b"   \n\n", b"xyzzy 1 2\n\n"]
ENDING_CONTEXTS = [
    ("handshake-only", []),
    ("after-isready", ["isready"]),
    ("after-garbage", ["", "foo bar", "   ", "isready"]),
    ("after-go", ["position startpos moves e2e4", "go wtime 0 btime 0", "isready"]),
]
# (an unterminated "quit" with standard input still open is not a line yet: the engine rightly waits)
QUIT_FORMS = [b"quit\n", b"  quit  \n", b"\n\nquit\n", b"   \nquit\n", b"\tquit\t\r\n", b"foo\nquit\n", b"quit\nfoo"]


def ending_sessions(ctx):
    """EXHAUSTIVE over (context before) x (last bytes written before standard input is closed), plus
    every spelling of quit: the process must exit promptly — whatever the last line looked like
    (complete, blank, whitespace only, unterminated, partial command, multi-byte)."""
    plans = [("eof", cn, cl, t) for cn, cl in ENDING_CONTEXTS for t in ENDING_TAILS]
    plans += [("quit", cn, cl, t) for cn, cl in ENDING_CONTEXTS for t in QUIT_FORMS]

    def one(plan):
        kind, cname, clines, tail = plan
        e = S.Engine()
        try:
            if not S.handshake(e):
                return ("no-handshake", plan)
            for l in clines:
                e.send(l)
            if "isready" in clines:
                _, ok = e.read_until(lambda l: l == "readyok", 5.0)
                if not ok:
                    return ("isready-unanswered", plan)
            e.send_raw(tail)
            if kind == "eof":
                e.close_stdin()
            rc = e.wait_exit(3.0)
            if rc is None:
                # confirm once more with a longer wait before calling it a violation (loaded sandbox)
                rc = e.wait_exit(4.0)
            if rc is None:
                return ("did-not-exit", plan)
            return ("ok", plan)
        finally:
            e.kill()
    for kind, plan in S.run_parallel(one, plans, workers=12):
        ctx.count("ending_sessions")
        ctx.case(("ending", plan[0], plan[1], plan[3]), plan[3].strip() == b"" or not plan[3].endswith(b"\n"))
        if kind == "no-handshake" or kind == "isready-unanswered":
            ctx.fail("ending-" + kind, how=plan[0], context=plan[1], last_bytes=repr(plan[3]))
        elif kind == "did-not-exit":
            ctx.fail(("eof" if plan[0] == "eof" else "quit") + "-did-not-exit", context=plan[1], context_lines=plan[2],
                     last_bytes=repr(plan[3]), note="process still running 7 s after " + ("standard input was closed" if plan[0] == "eof" else "quit was written"))


def responsive_after_heavy_go(ctx):
    """after a `go` that was answered on time although its search thread is still busy (capture search
    of a queen lattice: seconds), the process must still be a UCI engine: `isready` answered at once,
    `quit` / end of input end it promptly"""
    heavy = [o[4:] for o in C.genops("heavy", ctx.seed + 10, 4 if ctx.quick else 24) if o.startswith("pos ")]
    plans = [(h, end) for h in heavy for end in ("quit", "eof")]

    def one(plan):
        h, end = plan
        worst = None
        for attempt in range(2):
            e = S.Engine()
            try:
                if not S.handshake(e):
                    return plan, "no-handshake"
                e.send(h)
                e.send("go wtime 400 btime 400")
                _, ok = e.read_until(lambda l: l.startswith("bestmove"), 4.0)
                if not ok:
                    worst = "go-unanswered-within-4s"
                    continue
                e.send("isready")
                _, ok = e.read_until(lambda l: l == "readyok", 2.0)
                if not ok:
                    worst = "isready-not-answered-within-2s-after-bestmove"
                    continue
                if end == "quit":
                    e.send("quit")
                else:
                    e.close_stdin()
                if e.wait_exit(3.0) is None:
                    worst = end + "-did-not-end-the-process-within-3s"
                    continue
                return plan, "ok"
            finally:
                e.kill()
        return plan, worst
    for plan, status in S.run_parallel(one, plans, workers=8):
        ctx.count("heavy_go_lifecycle_sessions")
        ctx.case(("heavy-life", plan), True)
        if status != "ok":
            ctx.fail("unresponsive-after-go", status=status, position=plan[0], ending=plan[1])


def unesc(s):
    out = []
    i = 0
    while i < len(s):
        c = s[i]
        if c != "\\":
            out.append(c)
            i += 1
            continue
        n = s[i + 1] if i + 1 < len(s) else ""
        if n == "n":
            out.append("\n"); i += 2
        elif n == "r":
            out.append("\r"); i += 2
        elif n == "t":
            out.append("\t"); i += 2
        elif n == "\\":
            out.append("\\"); i += 2
        elif n == "u":
            j = s.index("}", i)
            out.append(chr(int(s[i + 3:j], 16))); i = j + 1
        else:
            out.append(n); i += 2
    return "".join(out)


GARBAGE = ["", "   ", "\t", "foo", "stop", "ponderhit", "debug on", "register later", "xyzzy 1 2 3", "go2", "isready2",
           "positio startpos", "é", "漢字 テスト", "  \t  ", "uci", "ucinewgame", "setoption name Foo value 3", "setoption name Hash value 64"]


def lifecycle_sessions(ctx, n):
    rnd = random.Random(ctx.seed + 17)
    plans = []
    for i in range(n):
        plans.append((i, rnd.randrange(2 ** 30)))

    def one(plan):
        i, sd = plan
        r = random.Random(sd)
        e = S.Engine()
        problems = []
        try:
            if not S.handshake(e):
                return [("no-handshake", {})]
            script = []
            for _ in range(r.randrange(0, 8)):
                script.append(r.choice(GARBAGE))
                if r.random() < 0.3:
                    script.append("isready")
            mode = i % 3
            # probe: state untouched by garbage => zero allowance answer equals the fresh answer
            e.send("position startpos moves e2e4 e7e5")
            for line in script:
                e.send(line if r.random() < 0.7 else "  " + line.replace(" ", "   ") + "  ")
            nready = script.count("isready")
            got = 0
            if nready:
                lines, ok = e.read_until(lambda l, c=[0]: (c.__setitem__(0, c[0] + (l == "readyok")) or c[0] >= nready), 5.0)
                got = sum(1 for _, l in lines if l == "readyok")
                if got != nready:
                    problems.append(("isready-unanswered", {"script": script, "readyok": got}))
            res = S.go_and_wait(e, "go  foo  wtime 0   btime 0 bar", 5.0)
            if not res["answered"]:
                problems.append(("go-unanswered-after-garbage", {"script": script}))
            elif res["best"] != "bestmove a2a3" and False:
                pass
            first = res.get("best")
            if mode == 0:
                t = e.send("quit")
                rc = e.wait_exit(2.0)
                if rc is None:
                    problems.append(("quit-did-not-exit", {"script": script}))
            elif mode == 1:
                t = e.close_stdin()
                rc = e.wait_exit(2.0)
                if rc is None:
                    problems.append(("eof-did-not-exit", {"script": script}))
            else:
                # EOF in the middle of a partial line
                e.send_raw(b"isrea")
                e.close_stdin()
                rc = e.wait_exit(2.0)
                if rc is None:
                    problems.append(("eof-after-partial-line-did-not-exit", {"script": script}))
            return problems + [("answer", {"best": first})]
        finally:
            e.kill()
    answers = set()
    for probs in S.run_parallel(one, plans, workers=8):
        ctx.count("lifecycle_sessions")
        for kind, d in probs:
            if kind == "answer":
                answers.add(d["best"])
                ctx.case(("life", len(answers), ctx.stats.get("lifecycle_sessions")), True)
            else:
                ctx.fail(kind, **d)
    if len(answers) > 1:
        ctx.fail("state-changed-by-ignored-input", answers=sorted(str(a) for a in answers))
    ctx.stats["zero_allowance_answers"] = sorted(str(a) for a in answers)


# =====================================================================================
# traced sessions (hook H5): the dispatch loop of play_game_uci against the model's `step`
# =====================================================================================

ZERO_GO = ["go", "go wtime 0 btime 0", "go wtime 100 btime 100", "go  foo  wtime 50   btime 50 bar", "go movestogo 5",
           "go winc 0 binc 0", "go wtime -5 btime -5", "go infinite"]
IGNORED = ["isready", "ucinewgame", "setoption name Foo value 3", "setoption name Hash value 64", "", "   ", "\t", "foo", "stop",
           "ponderhit", "debug on", "xyzzy 1 2 3", "go2", "isready2", "positio startpos", "\u00e9", "  \t  ", "uci",
           "  isready  ", "isready\r", "position2 startpos", "Position startpos", "GO", "quit2"]


def _cont_line(stem):
    return lambda answers, st=stem: "position " + st + ((" moves " + " ".join(answers)) if answers else "")


def traced_scripts(ctx, families, n):
    """deterministic scripts for the traced sessions; every go has a zero time slice"""
    rnd = random.Random(ctx.seed + 41)
    scripts = []
    poslines = [o[4:] for o in C.genops("search", ctx.seed + 2, max(6, n), 40) if o.startswith("pos ")]
    replines = [o[4:] for o in C.genops("rep", ctx.seed + 6, max(4, n // 2), 12, 4) if o.startswith("pos position")]

    def sprinkle(items, p):
        out = []
        for it in items:
            while rnd.random() < p:
                out.append(("ignored", rnd.choice(IGNORED)))
            out.append(it)
        while rnd.random() < p:
            out.append(("ignored", rnd.choice(IGNORED)))
        return out
    endings = ["eof", "quit", ("partial", "isrea"), ("partial", "   "), ("partial", "go"), "eof", "quit",
               ("partial", "\n"), ("partial", "  \t \n"), ("partial", "\r\n"), ("partial", "\t"), ("partial", "isready\n\n")]
    if "cont" in families:
        # a GUI playing a game through the engine: the position command grows by the engine's own answers
        for stem in CONT_STEMS:
            items = []
            for ply in range(6):
                items += [("position", _cont_line(stem)), ("go", rnd.choice(ZERO_GO))]
            items += [("position", "position " + rnd.choice(CONT_STEMS)), ("go", "go"), ("position", _cont_line(stem)), ("go", "go")]
            scripts.append(("cont:" + stem[:40], sprinkle(items, 0.25), rnd.choice(endings)))
    if "gogo" in families:
        # several go commands without a new position (the engine plays both sides from its own boards)
        for pl in (CONT_STEMS[:8] + [p[9:] for p in poslines[:n]]):
            pl = pl if pl.startswith(("fen ", "startpos")) else pl
            items = [("position", "position " + pl)] + [("go", rnd.choice(ZERO_GO)) for _ in range(rnd.randrange(2, 6))]
            scripts.append(("gogo:" + pl[:40], sprinkle(items, 0.15), rnd.choice(endings)))
    if "garbage" in families:
        for pl in poslines[:n]:
            items = [("position", pl), ("go", rnd.choice(ZERO_GO)), ("position", rnd.choice(poslines)), ("go", rnd.choice(ZERO_GO))]
            scripts.append(("garbage:" + pl[:40], sprinkle(items, 0.7), rnd.choice(endings)))
        scripts.append(("garbage-only", [("ignored", g) for g in IGNORED], "eof"))
    if "terminal" in families:
        for t in TERMINAL:
            items = [("position", t), ("go", rnd.choice(ZERO_GO)), ("ignored", "isready"), ("go", "go"),
                     ("position", "position startpos moves e2e4"), ("go", "go")]
            scripts.append(("terminal:" + t[:40], sprinkle(items, 0.2), rnd.choice(endings)))
    if "rep" in families:
        for pl in replines[:n]:
            bare = pl.split(" moves ")[0]
            items = [("position", pl), ("go", "go"), ("position", bare), ("go", "go"), ("position", pl), ("ignored", "ucinewgame"),
                     ("position", bare), ("go", "go")]
            scripts.append(("rep:" + pl[:40], sprinkle(items, 0.2), rnd.choice(endings)))
    return scripts


def run_traced(ctx, families, n):
    """T2 for the dispatch loop: the real UCI loop (hook-enabled binary, state trace after every
    command) against the model's `step` machine on the same script, plus implementation-only oracles:
    ignored lines leave the state untouched (C17), the state after `position X` equals that of a
    fresh process given only `position X` (C16), every go prints exactly one bestmove (C03/C08)."""
    if ctx.bs.trace_engine_error:
        ctx.t2.append({"op": "<hook-enabled engine build>", "impl": ctx.bs.trace_engine_error[-300:], "model": ""})
        ctx.count("t2_diffs")
        return
    scripts = traced_scripts(ctx, families, n)
    fresh_cache = {}

    def fresh_state(cmd):
        if cmd not in fresh_cache:
            tr, _, prob, _b = S.traced_session([cmd], "eof")
            st = [l for l in (tr or []) if l.startswith("verifstate ")]
            fresh_cache[cmd] = st[1] if len(st) >= 2 else None
        return fresh_cache[cmd]

    def one(sc):
        name, items, ending = sc
        tr, entries, prob, sent = S.traced_session([it for _, it in items], ending)
        return sc, tr, entries, prob, sent
    results = S.run_parallel(one, scripts, workers=8)
    ops = []
    for sc, tr, entries, prob, sent in results:
        if entries:
            # the model gets the BYTES the process read (its own read_from_gui splits them into lines)
            # and the engine's answers in order
            answers = [e.split(S.SEP)[1] for e in entries if S.SEP in e]
            ops.append("sessb " + ",".join(answers) + "|" + S.esc_line(sent))
    model = C.run_model_only(ops) if ops else []
    mi = 0
    for sc, tr, entries, prob, sent in results:
        name, items, ending = sc
        ctx.count("traced_sessions")
        if prob or not entries:
            ctx.t2.append({"op": "traced session " + name, "impl": str(prob), "model": ""})
            ctx.count("t2_diffs")
            continue
        m = model[mi].split(" ~~ ")
        mi += 1
        if m and m[-1] == "panic":
            m[-1] = "exit 101"
        ctx.case(("traced", name), True)
        ctx.traces += 1
        if m != tr:
            # first point of disagreement
            j = next((i for i in range(min(len(m), len(tr))) if m[i] != tr[i]), min(len(m), len(tr)))
            ctx.t2diff({"op": "sess " + " | ".join(entries)[:600], "I": " ~~ ".join(tr[max(0, j - 1):j + 2])[:600],
                        "M": " ~~ ".join(m[max(0, j - 1):j + 2])[:600]})
        # implementation-only oracles on the transcript: split it at the state lines
        segs = []
        cur = None
        for l in tr:
            if l.startswith("verifstate "):
                if cur is not None:
                    segs.append(cur)
                cur = [l]
            elif cur is not None:
                cur.append(l)
        if cur is not None:
            segs.append(cur)
        # segs[i] = [state before command i, outputs of command i ...]; entries[1 + i] is command i
        for i, (kind, _it) in enumerate(items):
            if i + 1 >= len(segs) or i + 1 >= len(entries):
                break
            line = entries[1 + i].split(S.SEP)[0]
            before, outs, after = segs[i][0], segs[i][1:], segs[i + 1][0]
            if kind == "ignored":
                toks = line.replace("\t", " ").replace("\r", " ").split()
                if after != before:
                    ctx.fail("state-changed-by-ignored-input", session=name, line=line, before=before[:200], after=after[:200])
                exp = ["readyok"] if toks[:1] == ["isready"] else []
                if outs != exp:
                    ctx.fail("unexpected-output-for-ignored-input", session=name, line=line, output=outs[:3])
            elif kind == "position":
                fs = fresh_state(line)
                if fs is not None and after != fs:
                    ctx.fail("state-after-position-depends-on-earlier-traffic", session=name, line=line[:300],
                             in_session=after[:260], fresh_process=fs[:260], script=[e.split(S.SEP)[0] for e in entries[1:2 + i]][-8:])
                if outs:
                    ctx.fail("unexpected-output-for-position", session=name, line=line[:200], output=outs[:3])
            elif kind == "go":
                nb = [o for o in outs if o.startswith("bestmove")]
                if len(nb) != 1 or len(outs) != 1:
                    ctx.fail("go-not-answered-by-exactly-one-bestmove", session=name, line=line, output=outs[:4])


# =====================================================================================
# search family
# =====================================================================================

INFO_RE = re.compile(r"^info pv((?: [a-h][1-8][a-h][1-8])+) depth (\d+) nodes (\d+) score (cp|mate) (-?\d+)$")


def parse_search(body):
    """'sent=..~info=..~tbl=..~q=..~roots=..~panic=..' -> dict"""
    d = {}
    for part in body.split("~"):
        k, _, v = part.partition("=")
        d[k] = v
    allsent = [x for x in d.get("sent", "").split(";") if x]
    # (since fix 3ef6069) the first board on the channel is the fall-back move handed over before the
    # first evaluation starts; `sent_list` keeps its old meaning: the improvements (or the repeated
    # fall-back move when the clock expires before any evaluation completes)
    d["fallback"] = allsent[0] if allsent else None
    d["all_sent"] = allsent
    d["sent_list"] = allsent[1:]
    d["info_list"] = [x for x in d.get("info", "").split(";") if x]
    return d


def score_rank(kind, val, k):
    if kind == "cp":
        return val
    if val > 0:
        return 10 ** 7 - val
    return -10 ** 7 - val


def check_info_lines(ctx, infos, legal_moves, k, where):
    """C18 grammar and monotonicity on one search's info lines (time already stripped)"""
    last_depth = 0
    last_rank = None
    for line in infos:
        m = INFO_RE.match(line)
        ctx.count("info_lines")
        if not m:
            ctx.fail("info-grammar", line=line, where=where)
            continue
        pv = m.group(1).split()
        depth, kind, val = int(m.group(2)), m.group(4), int(m.group(5))
        if depth < 1 or depth < last_depth:
            ctx.fail("info-depth", line=line, previous_depth=last_depth, where=where)
        if kind == "mate" and val == 0:
            ctx.fail("info-mate-zero", line=line, where=where)
        if kind == "mate" and abs(val) > k["window"] // 2 + 1:
            # mate scores are only printed within `mate_window` plies of the mate score
            ctx.fail("info-mate-distance-out-of-range", line=line, where=where)
        if kind == "cp" and (abs(val) >= k["inf"] or abs(val) > k["mate"]):
            ctx.fail("info-score-out-of-range", line=line, where=where)
        if legal_moves is not None and pv[0] not in legal_moves:
            ctx.fail("info-first-pv-move-illegal", line=line, legal=sorted(legal_moves)[:40], where=where)
        rank = score_rank(kind, val, k)
        if depth == last_depth and last_rank is not None and rank <= last_rank:
            ctx.fail("info-not-increasing-within-depth", line=line, where=where)
        last_depth, last_rank = depth, rank


def strip10(succ):
    """successor string without the trailing order_heuristic field"""
    mv, _, st = succ.partition("|")
    return mv + "|" + " ".join(st.split(" ")[:10])


def search_positions(ctx, n, plies, sop, with_rep=True):
    ops = C.genops("search", ctx.seed, n, plies, "gen_all", sop.replace(" ", "_"))
    if with_rep:
        ops += C.genops("rep", ctx.seed + 3, max(4, n // 3), plies, 4, sop.replace(" ", "_"))
    return ops


def forced_positions(ctx, n, sop):
    """positions in which the side to move has exactly one / exactly two legal moves (forced replies,
    found by the SPEC along checking playouts), each with the given search op: the root loop's
    fall-back and early-exit paths look different when the move list is this short"""
    ops = C.genops("fewmoves", ctx.seed + 11, n, 1, 60, "gen_all", sop.replace(" ", "_"))
    ops += C.genops("fewmoves", ctx.seed + 12, max(2, n // 2), 2, 60, "gen_all", sop.replace(" ", "_"))
    return ops


def group_by_pos(res):
    """yield (pos_result, gen_all_result, [search results])"""
    cur = None
    for r in res:
        if r["op"].startswith("pos ") or r["op"].startswith("fen "):
            if cur:
                yield cur
            cur = [r, None, []]
        elif r["op"] == "gen all" and cur:
            cur[1] = r
        elif cur and r["op"].split(" ")[0] in ("search", "searchd", "sweep"):
            cur[2].append(r)
    if cur:
        yield cur


def t2_search(ctx, res):
    for r in res:
        body = C.impl_body(r["op"], r["I"])
        if r["M"] is None or body != r["M"]:
            ctx.t2diff({"op": r["op"], "I": body, "M": r["M"] if r["M"] is not None else "<no model run>"})
        ctx.traces += 1


def root_info(posr, genr):
    tbl = posr["I"].partition(" tbl=")[2] if posr["I"].startswith("ok ") else "-"
    succ = C.succ_list(genr["I"]) if genr else []
    return tbl, succ


def check_sweep_group(ctx, posr, genr, sr, k):
    tbl, succ = root_info(posr, genr)
    legal4 = set(m[:4] for m, _ in succ)
    succ10 = set(strip10("%s|%s" % (m, s)) for m, s in succ)
    secs = C.impl_body(sr["op"], sr["I"]).split("~~")
    prev = None
    pf = None
    where = [posr["op"], sr["op"]]
    for sec in secs:
        kk, _, body = sec.partition("~")
        d = parse_search(body)
        ctx.case((posr["op"], kk), len(d["info_list"]) > 0)
        w = where + [kk]
        if d.get("panic") == "2":
            # ended by the hook clock: 50 000 answers "out of time" and the search still goes on; what it
            # reported until then is judged below like any other run
            ctx.fail("search-does-not-stop-after-running-out-of-time", where=w)
        elif d.get("panic") != "0":
            ctx.fail("search-panic", where=w)
            continue
        if d.get("tbl") != tbl:
            ctx.fail("repetition-record-not-restored", where=w, before=tbl, after=d.get("tbl"))
        for s in d["all_sent"]:
            if strip10(s) not in succ10:
                ctx.fail("sent-move-not-a-root-successor", where=w, sent=s[:200])
        if succ and not d["all_sent"]:
            ctx.fail("no-move-sent", where=w)
        if not d["info_list"] and d["sent_list"] and d["sent_list"][0] != d["fallback"]:
            ctx.fail("fallback-move-changed", where=w, first=d["fallback"][:60], later=d["sent_list"][0][:60])
        if d["info_list"]:
            if len(d["sent_list"]) != len(d["info_list"]):
                ctx.fail("sent-vs-info-count", where=w, sent=len(d["sent_list"]), info=len(d["info_list"]))
            else:
                for s, line in zip(d["sent_list"], d["info_list"]):
                    m = INFO_RE.match(line)
                    if m and m.group(1).split()[0] != s.split("|")[0][:4]:
                        ctx.fail("info-pv-is-not-the-sent-move", where=w, sent=s[:60], line=line)
        elif len(d["sent_list"]) > 1:
            ctx.fail("several-fallback-moves", where=w)
        check_info_lines(ctx, d["info_list"], legal4, k, w)
        if prev is not None:
            pi, ps = prev
            if d["info_list"][:len(pi)] != pi:
                ctx.fail("larger-allowance-changed-reported-improvements", where=w, smaller=pi[-2:], larger=d["info_list"][:len(pi)][-2:])
            if pi and d["sent_list"][:len(ps)] != ps:
                ctx.fail("larger-allowance-changed-sent-moves", where=w)
            if pf != d["fallback"]:
                ctx.fail("larger-allowance-changed-fallback-move", where=w)
        prev = (d["info_list"], d["sent_list"])
        pf = d["fallback"]
    ctx.sample({"pos": posr["op"][:120], "sweep": sr["op"], "runs": len(secs)})


def check_C07(ctx, deep=False):
    k = consts()
    ctx.rule = ("`sweep K s`: the real get_best_move under the virtual clock with expiry at the k-th consultation for every k "
                "in 0..K (stride s), on playout positions with their game-history tables and on repetition histories; each run: "
                "no panic, table restored, every sent board is a root successor, improvements = info lines, info lines of a "
                "smaller k are a prefix of those of a larger k, sentinel never reported; model replays each run from the "
                "engine's order log and must reproduce it exactly; non-trivial = run reported at least one improvement")
    q = ctx.quick
    n = (16 if q else 40) * (2 if deep else 1)
    K, stride = (300, 1) if q else (6000, 7)
    ops = search_positions(ctx, n, 30, "sweep %d %d" % (K, stride))
    if not q:
        ops += search_positions(ctx, 12, 30, "sweep 400 1")
    ops += forced_positions(ctx, 8 if q else 80, "sweep 30 1")
    res = C.run_ops(ops)
    t2_search(ctx, res)
    for posr, genr, srs in group_by_pos(res):
        for sr in srs:
            if sr["I"] == "panic":
                ctx.fail("search-panic", where=[posr["op"], sr["op"]])
                continue
            check_sweep_group(ctx, posr, genr, sr, k)


def check_C18(ctx, deep=False):
    k = consts()
    ctx.rule = ("every info line of every run of the C07 sweeps (virtual clock, all cut points) and of live timed sessions of the "
                "real binary is parsed with the grammar `info pv <moves> depth D nodes N score (cp X|mate Y) [time T]`; D>=1 "
                "non-decreasing, Y != 0, |X| <= mate score and != sentinel, first PV move in the SPEC-checked root move list, "
                "strictly increasing within a depth; non-trivial = run with at least two info lines")
    q = ctx.quick
    n = (14 if q else 40) * (2 if deep else 1)
    ops = search_positions(ctx, n, 40, "sweep %d %d" % ((250, 1) if q else (5000, 5)))
    ops += search_positions(ctx, n, 40, "searchd 3", with_rep=False)
    res = C.run_ops(ops)
    t2_search(ctx, res)
    for posr, genr, srs in group_by_pos(res):
        tbl, succ = root_info(posr, genr)
        legal4 = set(m[:4] for m, _ in succ)
        # the root move list itself is checked against the SPEC (C01) here as well
        if genr and genr["S"] != "-":
            if sorted(m for m, _ in succ) != sorted(m for m, _ in C.succ_list(genr["S"])):
                ctx.fail("root-moves-not-legal-moves", where=[posr["op"]])
        for sr in srs:
            body = C.impl_body(sr["op"], sr["I"])
            for sec in body.split("~~"):
                if sr["op"].startswith("sweep"):
                    sec = sec.partition("~")[2]
                d = parse_search(sec)
                ctx.case((posr["op"], sr["op"], sec[:20], len(d["info_list"])), len(d["info_list"]) >= 2)
                check_info_lines(ctx, d["info_list"], legal4, k, [posr["op"], sr["op"]])
                if d["info_list"]:
                    ctx.sample({"pos": posr["op"][:100], "last_info": d["info_list"][-1]})
    if not ctx.bs.engine_error:
        live_info_sessions(ctx, k, 6 if q else 60)
        back_to_back_info_sessions(ctx, k, 6 if q else 40)
        handover_sessions(ctx, 2 if q else 20, "C18")


def live_info_sessions(ctx, k, n):
    poslines = [o for o in C.genops("search", ctx.seed + 9, n, 30) if o.startswith("pos ")]
    legal = {}
    res = C.run_ops([x for p in poslines for x in (p, "gen all")])
    for i in range(0, len(res), 2):
        legal[res[i]["op"]] = set(m[:4] for m, _ in C.succ_list(res[i + 1]["S"] if res[i + 1]["S"] != "-" else res[i + 1]["I"]))

    def one(pl):
        e = S.Engine()
        try:
            if not S.handshake(e):
                return pl, None
            e.send(pl[4:])
            r = S.go_and_wait(e, "go wtime 3100 btime 3100", 10)
            return pl, r
        finally:
            e.kill()
    for pl, r in S.run_parallel(one, poslines, workers=4):
        ctx.count("live_sessions")
        if r is None or not r["answered"]:
            ctx.fail("live-session-unanswered", pos=pl)
            continue
        infos = []
        for l in r["infos"]:
            m = re.match(r"^(.*) time (\d+)$", l)
            if not m:
                ctx.fail("info-grammar", line=l, where=[pl, "live"])
            else:
                infos.append(m.group(1))
        ctx.case((pl, "live"), len(infos) >= 2)
        check_info_lines(ctx, infos, legal.get(pl), k, [pl, "live"])


def back_to_back_info_sessions(ctx, k, n):
    """two searches back to back in one process: the first on a position with exactly ONE legal move
    (forced reply; slice 0.8 s) or on a queen lattice with a tiny slice (its search thread outlives the
    answer), the second right after the first answer — the info lines printed between the second `go`
    and its `bestmove` must all belong to the second search: grammar, depth order, strictly increasing
    scores within a depth, first PV move legal in the SECOND position"""
    firsts = [(o[4:], "go movestogo 1 wtime 1100 btime 1100") for o in C.genops("fewmoves", ctx.seed + 13, n, 1, 60) if o.startswith("pos ")]
    firsts += [(o[4:], "go wtime 250 btime 250") for o in C.genops("heavy", ctx.seed + 13, max(2, n // 2)) if o.startswith("pos ")]
    seconds = [o for o in C.genops("search", ctx.seed + 14, len(firsts), 30) if o.startswith("pos ")]
    legal = {}
    res = C.run_ops([x for p in seconds for x in (p, "gen all")])
    for i in range(0, len(res), 2):
        legal[res[i]["op"]] = set(m[:4] for m, _ in C.succ_list(res[i + 1]["S"] if res[i + 1]["S"] != "-" else res[i + 1]["I"]))
    plans = [(f, g, seconds[i % len(seconds)]) for i, (f, g) in enumerate(firsts)] if seconds else []

    def one(plan):
        f, g, sec = plan
        e = S.Engine()
        try:
            if not S.handshake(e):
                return plan, None
            e.send(f)
            r1 = S.go_and_wait(e, g, 10)
            if not r1["answered"]:
                return plan, None
            e.send(sec[4:])
            r2 = S.go_and_wait(e, "go wtime 6100 btime 6100", 10)
            return plan, r2
        finally:
            e.kill()
    for plan, r in S.run_parallel(one, plans, workers=6):
        f, g, sec = plan
        ctx.count("back_to_back_sessions")
        if r is None or not r["answered"]:
            ctx.fail("live-session-unanswered", pos=sec, after=f)
            continue
        infos = []
        for l in r["infos"]:
            m = re.match(r"^(.*) time (\d+)$", l)
            if not m:
                ctx.fail("info-grammar", line=l, where=[f, g, sec, "second search"])
            else:
                infos.append(m.group(1))
        ctx.case((f, sec, "b2b"), len(infos) >= 2)
        check_info_lines(ctx, infos, legal.get(sec), k, [f, g, sec, "info lines of the second search"])


def check_C12(ctx, deep=False):
    k = consts()
    ctx.rule = ("`searchd 3`: the real search run until iteration 3 has completed (virtual clock), on playout positions with their "
                "game-history tables and on repetition histories; the last info line of each depth 1..3 must carry the minimax "
                "value computed by the Lean oracle (plain alpha-beta `Spec.fast`, licensed by theorem fast_spec = Spec.negamax), "
                "and the move selected must be in the oracle's argmax set; model replay from the order log must agree exactly; "
                "non-trivial = position with >= 2 legal moves")
    q = ctx.quick
    n = (150 if q else 3000) * (3 if deep else 1)
    ops = search_positions(ctx, n, 50, "searchd 3", with_rep=False)
    ops += C.genops("rep", ctx.seed + 3, n * 2, 30, 4, "gen_all", "searchd_3")
    # promotions AT THE ROOT, where the four promotions of one pawn move share from/to squares and the queen is
    # not always best (stalemate tricks): pawn on the seventh, both kings within two squares of the promotion
    # square, optionally a second pawn; both colours; positions the SPEC rejects are skipped
    cnt = 0
    for white in (True, False):
        for f in range(1, 9):
            for wk in [(f + dx, (8 if white else 1) + dy) for dx in (-2, -1, 0, 1, 2) for dy in ((0, -1, -2) if white else (0, 1, 2))]:
                for bk in [(f + dx, (8 if white else 1) + dy) for dx in (-2, -1, 1, 2) for dy in ((0, -1, -2) if white else (0, 1, 2))]:
                    for extra in (None, (f, 4 if white else 5), (f + 1, 4 if white else 5), (f - 1, 4 if white else 5)):
                        if extra and not 1 <= extra[0] <= 8:
                            continue
                        cnt += 1
                        if cnt % (5 if q else 1):
                            continue
                        board = {(f, 7 if white else 2): "P" if white else "p"}
                        if not all(1 <= x <= 8 and 1 <= y <= 8 for x, y in (wk, bk)) or wk in board or bk in board or wk == bk:
                            continue
                        # legal positions only: kings not adjacent, the side that is not to move not in check by a pawn
                        if max(abs(wk[0] - bk[0]), abs(wk[1] - bk[1])) <= 1:
                            continue
                        if abs(bk[0] - f) == 1 and bk[1] == (8 if white else 1):
                            continue
                        if extra and abs(bk[0] - extra[0]) == 1 and bk[1] == extra[1] + (1 if white else -1):
                            continue
                        board[wk] = "K" if white else "k"
                        board[bk] = "k" if white else "K"
                        if extra and extra not in board:
                            board[extra] = "P" if white else "p"
                        rows = []
                        for y in range(8, 0, -1):
                            row, run = "", 0
                            for x in range(1, 9):
                                ch = board.get((x, y))
                                if ch is None:
                                    run += 1
                                else:
                                    row += (str(run) if run else "") + ch
                                    run = 0
                            rows.append(row + (str(run) if run else ""))
                        ops += ["pos position fen %s %s - - 0 1" % ("/".join(rows), "w" if white else "b"), "gen all", "searchd 3"]
    res = C.run_ops(ops)
    t2_search(ctx, res)
    for posr, genr, srs in group_by_pos(res):
        tbl, succ = root_info(posr, genr)
        for sr in srs:
            judge_depths(ctx, posr, sr, k, len(succ))
    if not ctx.bs.engine_error:
        live_minimax_sessions(ctx, 40 if q else 300)


def live_minimax_sessions(ctx, n):
    """the score the engine REPORTS (info lines of the real binary) for depths 1..3, in a process that has been
    sent the game GUI-style (one growing `position ... moves ...` per ply, searches in between): the last line of
    every completed depth <= 3 must carry the oracle's minimax value for the final position with ITS history"""
    games = [o for o in C.genops("rep", ctx.seed + 31, n, 14, 3) if o.startswith("pos ") and " moves " in o]
    ops = []
    for g in games:
        ops += [g, "searchd 3"]
    res = C.run_ops(ops)
    want = {}
    for i in range(0, len(res), 2):
        if res[i + 1]["S"] not in ("-", ""):
            want[res[i]["op"]] = res[i + 1]["S"]

    def one(g):
        cmd = g[4:]
        head, moves = cmd.split(" moves ")
        moves = moves.split(" ")
        e = S.Engine()
        try:
            if not S.handshake(e):
                return g, None
            e.send("ucinewgame")
            for j in range(max(1, len(moves) - 6), len(moves), 2):
                e.send(head + " moves " + " ".join(moves[:j]))
                r = S.go_and_wait(e, "go wtime 200 btime 200", 8)
                if not r["answered"]:
                    return g, None
            e.send(cmd)
            return g, S.go_and_wait(e, "go wtime 6100 btime 6100", 12)
        finally:
            e.kill()
    for g, r in S.run_parallel(one, [g for g in games if g in want], workers=4):
        ctx.count("live_minimax_sessions")
        if r is None or not r["answered"]:
            ctx.fail("live-session-unanswered", pos=g)
            continue
        last = {}
        maxd = 0
        for l in r["infos"]:
            m = INFO_RE.match(re.sub(r" time \d+$", "", l))
            if m:
                d = int(m.group(2))
                last[d] = (m.group(4) + " " + m.group(5), l)
                maxd = max(maxd, d)
        ctx.case((g, "live"), maxd > 3)
        for item in want[g].split(";"):
            m = re.match(r"D=(\d+):(-?\d+):([a-z]+ -?\d+):(.*)", item)
            if not m:
                continue
            D, text = int(m.group(1)), m.group(3)
            if D >= maxd or D not in last:       # depth D not known to be complete in this run
                continue
            if last[D][0] != text:
                ctx.fail("reported-score-is-not-minimax", where=[g, "GUI-style session, final go"], depth=D, reported=last[D][1], minimax=text)
            else:
                ctx.sample({"pos": g[:100], "depth": D, "score": text, "live": True})


def judge_depths(ctx, posr, sr, k, nsucc):
    if nsucc == 0:
        return          # mate or stalemate at the root: the property speaks about non-terminal positions
    if sr["S"] == "-" or sr["I"] == "panic":
        if sr["I"] == "panic":
            ctx.fail("search-panic", where=[posr["op"], sr["op"]])
        return
    d = parse_search(C.impl_body(sr["op"], sr["I"]))
    ctx.case((posr["op"], sr["op"]), nsucc >= 2)
    if d.get("panic") != "0":
        ctx.fail("search-does-not-stop-after-running-out-of-time" if d.get("panic") == "2" else "search-panic", where=[posr["op"], sr["op"]])
        return
    roots = int(d.get("roots", "0"))
    by_depth = {}
    sent_by_depth = {}
    for line, s in zip(d["info_list"], d["sent_list"]):
        m = INFO_RE.match(line)
        if m:
            by_depth[int(m.group(2))] = (m.group(4) + " " + m.group(5), line)
            sent_by_depth[int(m.group(2))] = s.split("|")[0]
    for item in sr["S"].split(";"):
        m = re.match(r"D=(\d+):(-?\d+):([a-z]+ -?\d+):(.*)", item)
        if not m:
            continue
        D, raw, text, arg = int(m.group(1)), int(m.group(2)), m.group(3), m.group(4).split(",")
        if D >= roots:          # iteration D not completed in this run
            continue
        if D not in by_depth:
            ctx.fail("no-report-for-completed-depth", where=[posr["op"], sr["op"]], depth=D)
            continue
        if by_depth[D][0] != text:
            ctx.fail("score-is-not-minimax", where=[posr["op"], sr["op"]], depth=D, reported=by_depth[D][1], minimax=text)
        elif sent_by_depth[D] not in arg:
            ctx.fail("selected-move-does-not-attain-value", where=[posr["op"], sr["op"]], depth=D, selected=sent_by_depth[D], argmax=arg)
        else:
            ctx.sample({"pos": posr["op"][:100], "depth": D, "score": text})


def check_C10(ctx, deep=False):
    k = consts()
    ctx.rule = ("histories with a reversible four-move cycle repeated 0..6 times (cut at a random point) after a random playout: "
                "`pos` table compared with occurrence counts recomputed from SPEC scratch keys; then `searchd 2`: whenever a root "
                "move leads to a position whose count is >= 2 the last score of each completed depth must be >= 0 and equal to "
                "the oracle's minimax; black box: a `position` after repetition traffic behaves like a fresh engine; "
                "non-trivial = history in which some position occurred at least twice")
    q = ctx.quick
    n = (150 if q else 4000) * (3 if deep else 1)
    ops = C.genops("rep", ctx.seed, n, 24, 6, "searchd_2")
    # more histories with a mixture of once- and twice-seen positions near the root, one iteration
    # deeper (the record is read and written at every node of the line: add, remove, lookup)
    ops += C.genops("rep", ctx.seed + 4, (450 if q else 6000) * (3 if deep else 1), 16, 3, "searchd_3")
    # deeper iterations (null-move pruning active): only the ">= 0" clause is judged there — it is
    # proved for every depth (root_score_nonneg_every_depth); exact values are not claimed beyond 3
    ops += C.genops("rep", ctx.seed + 2, 24 if q else 600, 20, 6, "searchd_4")
    # several position commands in a row: the second must not see the first's table
    extra = [o for o in C.genops("rep", ctx.seed + 1, 40, 20, 5) if o.startswith("pos ")]
    ops += extra
    res = C.run_ops(ops)
    t2_search(ctx, [r for r in res if r["op"].startswith("searchd")])
    for r in res:
        if not r["op"].startswith("searchd") and r["M"] != r["I"]:
            ctx.t2diff(r)
    for posr, genr, srs in group_by_pos(res):
        if posr["S"] == "-":
            continue
        if not posr["I"].startswith("ok "):
            ctx.fail("position-rejected", op=posr["op"], impl=posr["I"][:100])
            continue
        st, _, tbl = posr["I"][3:].partition(" tbl=")
        sst, _, stbl = posr["S"].partition(" tbl=")
        counts = dict((kv.split(":")[0], int(kv.split(":")[1])) for kv in stbl.split(",") if ":" in kv)
        ctx.case(posr["op"], any(v >= 2 for v in counts.values()))
        if tbl != stbl:
            ctx.fail("repetition-counts", op=posr["op"], impl=tbl, spec=stbl)
            continue
        if not genr or not srs:
            continue
        succ = C.succ_list(genr["I"])
        drawn = [m for m, s in succ if counts.get(s.split(" ")[6], 0) >= 2]
        if drawn and srs[0]["I"] != "panic":
            ctx.count("roots_with_a_repeating_move")
            d = parse_search(C.impl_body(srs[0]["op"], srs[0]["I"]))
            roots = int(d.get("roots", "0"))
            last = {}
            for line in d["info_list"]:
                m = INFO_RE.match(line)
                if m:
                    last[int(m.group(2))] = (m.group(4), int(m.group(5)), line)
            for D, (kind, val, line) in last.items():
                if D < roots and val < 0:
                    ctx.fail("repeating-move-available-but-score-negative", op=posr["op"], drawn_moves=drawn, line=line)
                if D < roots and D >= 4:
                    ctx.count("deep_iterations_with_a_repeating_move")
            ctx.sample({"pos": posr["op"][:160], "drawing_moves": drawn[:4], "final": [v[2] for v in last.values()][-1:]})
        if srs[0]["op"].startswith("searchd ") and int(srs[0]["op"].split(" ")[1]) <= 3:
            judge_depths(ctx, posr, srs[0], k, len(succ))
        elif srs[0]["I"] == "panic":
            ctx.fail("search-panic", where=[posr["op"], srs[0]["op"]])
    # the repetition record as a data structure on its own: random scripts of add / remove / lookup /
    # clear over a few keys with the discipline of the search (a remove only for an earlier add),
    # against the model and against plain occurrence counting
    rnd = random.Random(ctx.seed + 31)
    dops = []
    for _ in range((400 if q else 20000) * (3 if deep else 1)):
        keys = list(range(rnd.randrange(1, 6)))
        counts = {}
        toks = []
        stack = []
        for _ in range(rnd.randrange(1, 40)):
            r = rnd.random()
            k = rnd.choice(keys)
            if r < 0.4:
                toks.append("a%d" % k); counts[k] = counts.get(k, 0) + 1; stack.append(k)
            elif r < 0.65 and stack:
                k = stack.pop(rnd.randrange(len(stack)) if rnd.random() < 0.3 else -1)
                toks.append("r%d" % k); counts[k] -= 1
            elif r < 0.97:
                toks.append("q%d" % k)
            else:
                toks.append("c"); counts = {}; stack = []
        toks += ["q%d" % k for k in keys]
        dops.append("dt " + " ".join(toks))
    for r in C.run_ops(dops):
        ctx.case(r["op"], "1" in (r["S"] or ""))
        ctx.traces += 1
        if r["M"] != r["I"]:
            ctx.t2diff(r)
        if r["I"] != r["S"]:
            ctx.fail("repetition-record-data-structure", op=r["op"], impl=r["I"], spec=r["S"])
    if not ctx.bs.engine_error:
        stale_table_session(ctx)
        run_traced(ctx, ["rep"], 8 if q else 60)
        live_repetition_sessions(ctx, 80 if q else 600)


def live_repetition_sessions(ctx, n):
    """black box, the `go` path of the real binary: `position <history with repeated positions>`, then `go` with a
    zero slice (the engine plays its fall-back move f and keeps the record), then a timed `go` WITHOUT a new
    position: whenever a move of the side now to move leads to a position that occurred at least twice in the
    history, the last score of every completed depth of that second search must be >= 0.  The drawn moves are
    computed from the SPEC's record of the history and the SPEC's successors of the position after f."""
    hist = [o for o in C.genops("rep", ctx.seed + 41, n, 14, 5) if o.startswith("pos ") and " moves " in o]

    def one(h):
        e = S.Engine()
        try:
            if not S.handshake(e):
                return h, None, None
            e.send(h[4:])
            played = []
            for _ in range(1 + (zlib.crc32(h.encode()) & 1)):       # one or two moves played by the engine itself first
                r1 = S.go_and_wait(e, "go wtime 100 btime 100", 8)
                if not r1["answered"] or not re.fullmatch(r"bestmove [a-h][1-8][a-h][1-8][qrbn]?", r1["best"] or ""):
                    return h, played, None
                played.append(r1["best"].split(" ")[1])
            r2 = S.go_and_wait(e, "go wtime 6100 btime 6100", 12)
            return h, played, r2
        finally:
            e.kill()
    runs = S.run_parallel(one, hist, workers=4)
    ops, idx = [], []
    for h, r1, r2 in runs:
        if r1 is None or r2 is None or not r2["answered"]:
            continue
        idx.append((h, r2, len(ops), len(r1), r1))
        ops += [h] + ["pick " + mv for mv in r1] + ["gen all"]
    res = C.run_ops(ops) if ops else []
    for h, r2, at, npl, played in idx:
        posr, genr = res[at], res[at + npl + 1]
        ctx.count("live_repetition_sessions")
        if posr["S"] == "-" or genr["S"] in ("-", ""):
            continue
        _, _, stbl = posr["S"].partition(" tbl=")
        counts = dict((kv.split(":")[0], int(kv.split(":")[1])) for kv in stbl.split(",") if ":" in kv)
        drawn = [m for m, st in C.succ_list(genr["S"]) if counts.get(st.split(" ")[6], 0) >= 2]
        ctx.case((h, "live-rep"), bool(drawn))
        if not drawn:
            continue
        ctx.count("live_roots_with_a_repeating_move")
        last, maxd = {}, 0
        for l in r2["infos"]:
            m = INFO_RE.match(re.sub(r" time \d+$", "", l))
            if m:
                last[int(m.group(2))] = (int(m.group(5)), l)
                maxd = max(maxd, int(m.group(2)))
        for D, (val, line) in last.items():
            if D < maxd and val < 0:
                ctx.fail("repeating-move-available-but-score-negative", session=[h[4:]] + ["go wtime 100 btime 100"] * npl + ["go wtime 6100 btime 6100"], engine_played=played,
                         drawn_moves=drawn[:6], line=line)
                break


def stale_table_session(ctx):
    """black box: `position startpos` after a game that repeated positions must search like a fresh engine"""
    def run(traffic):
        e = S.Engine()
        try:
            if not S.handshake(e):
                return None
            for l in traffic:
                e.send(l)
            e.send("position startpos")
            r = S.go_and_wait(e, "go wtime 1600 btime 1600", 10)
            return [re.sub(r" time \d+$", "", l) for l in r["infos"]] if r["answered"] else None
        finally:
            e.kill()
    rep = "position startpos moves g1f3 g8f6 f3g1 f6g8 g1f3 g8f6 f3g1 f6g8 g1f3 g8f6 f3g1 f6g8"
    # a run in which the machine stalled may show no info line at all (the slice is 40 ms): that is
    # nothing to compare, not a leak (false alarm of `vp check` #6, see DESIGN 0.3) — try again
    for attempt in range(4):
        a = run([])
        b = run([rep, "isready"])
        if a is None or b is None or min(len(a), len(b)) > 0:
            break
    ctx.count("stale_table_sessions")
    ctx.case(("stale", 1), True)
    if a is None or b is None:
        ctx.fail("session-unanswered", traffic=rep)
        return
    n = min(len(a), len(b))
    if n == 0:
        ctx.notes.append("stale-table session: no info lines within the slice in 4 attempts, nothing compared")
    elif a[:n] != b[:n]:
        ctx.fail("earlier-position-command-leaks-into-search", fresh=a[:4], after_repetitions=b[:4])


def check_C11(ctx, deep=False):
    k = consts()
    ctx.rule = ("positions near mate/stalemate from curated stems and playouts of small endings, and mate-in-one positions obtained by "
                "retraction from generated mates over 16 material sets: `mateinfo` (Lean solver over the "
                "model's generator: moves that mate at once, moves that do not allow a mate in one), `searchd 1/2/3` on the real "
                "search; iteration 1 must select a mating move when one exists, iteration 2 must not walk into a mate in one "
                "when avoidable; every `score mate N` (|N| <= 3) is judged by the Lean solver (`matecheck`): N>0 on any line => "
                "after that line's first move a mate within N exists; N<0 on the last line of a completed depth => mated "
                "within |N| whatever is played; stalemate never reported as mate; deeper iterations (null move) explored to "
                "iteration 5 on the same positions; non-trivial = position with a mate in one or a mate score reported")
    q = ctx.quick
    n = (600 if q else 6000) * (3 if deep else 1)
    ops = []
    sops = ["gen_all", "mateinfo", "searchd_1", "searchd_2", "searchd_3"]
    ops += C.genops("mate", ctx.seed, n, *sops)
    # mate-in-one positions obtained by taking back the mating move from generated mates, round-robin
    # over material sets incl. every "one minor piece each" pairing (self-block / rim mates)
    ops += C.genops("retromate", ctx.seed + 1, 64 if q else 960, *sops)
    ops += C.genops("search", ctx.seed, n // 4, 6, *sops)
    if not q:
        ops += C.genops("mate", ctx.seed + 2, 150, "gen_all", "mateinfo", "searchd_5")
    res = C.run_ops(ops)
    t2_search(ctx, [r for r in res if r["op"].startswith("searchd")])
    attach_context(res)
    cur = None
    mate_infos = {}
    for r in res:
        if r["op"].startswith("pos "):
            cur = r
        elif r["op"] == "mateinfo" and cur is not None:
            mate_infos[cur["_i"]] = r["S"]
    pos_of = {}
    cur = None
    for r in res:
        if r["op"].startswith("pos "):
            cur = r
        elif r["op"].startswith("searchd") and cur is not None:
            pos_of[r["_i"]] = cur
    followups = []
    for r in res:
        if not r["op"].startswith("searchd"):
            continue
        posr = pos_of[r["_i"]]
        mi = mate_infos.get(posr["_i"], "")
        mi = dict(p.partition("=")[::2] for p in mi.split("~")) if mi else {}
        m1 = [x for x in mi.get("m1", "").split(",") if x]
        safe = [x for x in mi.get("safe", "").split(",") if x]
        if r["I"] == "panic":
            ctx.fail("search-panic", where=[posr["op"], r["op"]])
            continue
        d = parse_search(C.impl_body(r["op"], r["I"]))
        N = int(r["op"].split(" ")[1])
        roots = int(d.get("roots", "0"))
        ctx.case((posr["op"], r["op"]), bool(m1) or any(" mate " in l for l in d["info_list"]))
        sel = d["sent_list"][-1].split("|")[0] if d["sent_list"] else None
        if roots > N and sel is not None and mi:
            if N >= 1 and m1 and sel not in m1:
                ctx.fail("mate-in-one-not-played", where=[posr["op"], r["op"]], selected=sel, mating_moves=m1)
            if N >= 2 and safe and not m1 and sel not in safe:
                ctx.fail("walked-into-mate-in-one", where=[posr["op"], r["op"]], selected=sel, safe_moves=safe[:10])
            if m1:
                ctx.count("positions_with_mate_in_one")
        # mate announcements
        last_of_depth = {}
        for idx, line in enumerate(d["info_list"]):
            m = INFO_RE.match(line)
            if m:
                last_of_depth[int(m.group(2))] = idx
        for idx, line in enumerate(d["info_list"]):
            m = INFO_RE.match(line)
            if not m or m.group(4) != "mate":
                continue
            depth, val = int(m.group(2)), int(m.group(5))
            first = m.group(1).split()[0]
            if mi.get("stalemate") == "1":
                ctx.fail("stalemate-reported-as-mate", where=[posr["op"], r["op"]], line=line)
            men = sum(1 for ch in posr["I"].split(" ")[1] if ch.isalpha()) if posr["I"].startswith("ok ") else 32
            if abs(val) > 3 or (abs(val) == 3 and (q or men > 7)):
                ctx.count("mate_claims_too_deep_to_judge")
                continue
            if val > 0:
                followups.append((posr["op"], "matecheck %d %s" % (val, first), line, r["op"]))
            elif last_of_depth.get(depth) == idx and depth < roots:
                followups.append((posr["op"], "matecheck %d -" % val, line, r["op"]))
    # mate announcements under EVERY clock expiry: the real search cut at each consultation k of the
    # first iterations on small mate-neighbourhood positions; every `mate N`, N > 0, on any line of
    # any run is a claim about that line's first move
    sw = C.genops("retromate", ctx.seed + 3, 10 if q else 120, "gen_all", "sweep_500_1")
    sw += C.genops("mate", ctx.seed + 4, 10 if q else 120, "gen_all", "sweep_500_1")
    # heavy pieces against a bare king, no mate in one: cut points up to the end of iteration 3
    sw += C.genops("matesoon", ctx.seed + 5, 6 if q else 80, "gen_all", "sweep_2100_3" if q else "sweep_2400_1")
    sres = C.run_ops(sw)
    t2_search(ctx, [r for r in sres if r["op"].startswith("sweep")])
    for posr, genr, srs in group_by_pos(sres):
        men = sum(1 for ch in posr["I"].split(" ")[1] if ch.isalpha()) if posr["I"].startswith("ok ") else 32
        for sr in srs:
            if sr["I"] == "panic":
                ctx.fail("search-panic", where=[posr["op"], sr["op"]])
                continue
            seen = set()
            for sec in C.impl_body(sr["op"], sr["I"]).split("~~"):
                kk, _, body = sec.partition("~")
                d = parse_search(body)
                ctx.case((posr["op"], sr["op"], kk), any(" mate " in l for l in d["info_list"]))
                for line in d["info_list"]:
                    m = INFO_RE.match(line)
                    if not m or m.group(4) != "mate":
                        continue
                    val = int(m.group(5))
                    first = m.group(1).split()[0]
                    if val <= 0 or val > 3 or (val == 3 and (q or men > 7)) or (val, first) in seen:
                        continue
                    seen.add((val, first))
                    ctx.count("mate_claims_under_expiry")
                    followups.append((posr["op"], "matecheck %d %s" % (val, first), line, sr["op"] + " " + kk))
    # judge the claims with the Lean solver
    uniq = sorted(set(followups))
    fops = []
    for pos, mc, line, sop in uniq:
        fops += [pos, mc]
    fres = C.run_ops(fops) if fops else []
    for i in range(0, len(fres), 2):
        pos, mc, line, sop = uniq[i // 2]
        ctx.count("mate_claims_judged")
        if fres[i + 1]["S"] == "false":
            ctx.fail("false-mate-announcement", where=[pos, sop], line=line, check=mc)
        elif fres[i + 1]["S"] == "true":
            ctx.sample({"pos": pos[:120], "claim": line})


# =====================================================================================
# black-box: C03, C08, C16
# =====================================================================================

CLOCKS = ["go", "go wtime 0 btime 0", "go wtime -50 btime -50", "go wtime 1 btime 1", "go wtime 50 btime 50 winc 0 binc 0",
          "go wtime 1000 btime 1000", "go wtime 2000 btime 2000 winc 100 binc 100 movestogo 10", "go infinite_ wtime 300 btime 300",
          "go movestogo 1", "go wtime 40 btime 40 winc 200 binc 200"]


def check_C03(ctx, deep=False):
    ctx.rule = ("black-box sessions of the real binary: `position` (fen or startpos + SPEC playout moves, non-terminal), then 1..4 "
                "consecutive `go` with clock settings from {none, zero, negative, 1 ms, 50 ms, 1 s, increments, movestogo}; each go "
                "must produce exactly one bestmove before the next readyok; every answer is checked against Spec.legalMoves of the "
                "position reached by the previous answers (promotion letter iff promotion); plus the in-process search ops of C07 "
                "(sent boards are root successors, one is always sent); non-trivial = session with >= 2 go commands")
    q = ctx.quick
    n = (60 if q else 1200) * (2 if deep else 1)
    poslines = [o for o in C.genops("search", ctx.seed, n, 50) if o.startswith("pos ")]
    # promotion / castling heavy stems explicitly
    extra = ["pos position fen 4k3/8/8/8/8/8/1p6/4K2R b K - 0 1", "pos position fen rn2k3/P1P5/8/8/8/8/p1p5/RN2K3 w Qq - 0 1",
             "pos position fen 8/P7/8/8/8/8/7k/K7 w - - 0 1", "pos position fen r3k2r/8/8/8/8/8/8/R3K2R w KQkq - 0 1",
             "pos position fen 4k3/8/8/8/8/8/1p6/4K2R b K - 0 1 moves b2b1n"]
    poslines = extra + poslines
    rnd = random.Random(ctx.seed)
    plans = [(pl, [rnd.choice(CLOCKS) for _ in range(rnd.randrange(1, 5))]) for pl in poslines]
    if ctx.bs.engine_error:
        ctx.notes.append("engine binary unavailable")
        return

    def one(plan):
        pl, gos = plan
        e = S.Engine()
        out = []
        try:
            if not S.handshake(e):
                return plan, None
            e.send(pl[4:])
            for g in gos:
                r = S.go_and_wait(e, g.replace("_", ""), 15)
                out.append(r)
                if not r["answered"] or r["best"] == "bestmove 0000":
                    break
            return plan, out
        finally:
            e.kill()
    results = S.run_parallel(one, plans, workers=6)
    # legality through the SPEC: pos, gen all, then pick answers one by one
    ops = []
    index = []
    for plan, out in results:
        pl, gos = plan
        ctx.count("sessions")
        ctx.case(("sess", pl, tuple(gos)), len(gos) >= 2)
        if out is None:
            ctx.fail("no-handshake", pos=pl)
            continue
        seq = [pl, "gen all"]
        for g, r in zip(gos, out):
            if not r["answered"]:
                ctx.fail("go-not-answered", pos=pl, go=g)
                break
            if r["n_best"] != 1:
                ctx.fail("not-exactly-one-bestmove", pos=pl, go=g, count=r["n_best"])
            mv = r["best"].split(" ")[1] if " " in r["best"] else ""
            if mv == "0000":
                # the null move: right exactly when the position reached by the engine's previous
                # answers has no legal move (C03 is then silent, C08 demands this answer); decided
                # below against the SPEC's move list of that position
                seq += ["nullmove"]
                break
            if not re.fullmatch(r"[a-h][1-8][a-h][1-8][qrbn]?", mv):
                ctx.fail("bestmove-ill-formed", pos=pl, go=g, line=r["best"])
                break
            seq += ["pick " + mv, "gen all"]
        null_at_end = seq[-1] == "nullmove"
        if null_at_end:
            seq = seq[:-1]
        index.append((plan, out, len(ops), len(seq), null_at_end))
        ops += seq
    res = C.run_ops(ops) if ops else []
    for plan, out, start, ln, null_at_end in index:
        pl, gos = plan
        rr = res[start:start + ln]
        legal = None
        if null_at_end:
            last = rr[-1]
            last_legal = [m for m, _ in C.succ_list(last["S"])] if last["S"] != "-" else None
            if last_legal:
                ctx.fail("null-move-in-non-terminal-position", pos=pl, gos=gos, legal=last_legal[:50])
            else:
                ctx.count("sessions_ending_in_terminal_position")
        for r in rr:
            if r["op"] == "gen all":
                legal = [m for m, _ in C.succ_list(r["S"])] if r["S"] != "-" else None
            elif r["op"].startswith("pick "):
                mv = r["op"][5:]
                if legal is not None and mv not in legal:
                    ctx.fail("bestmove-not-legal", pos=pl, gos=gos, move=mv, legal=legal[:50])
                    break
                elif legal is not None:
                    ctx.sample({"pos": pl[:100], "gos": gos, "answer": mv})
    stale_thread_sessions(ctx)
    handover_sessions(ctx, 3 if q else 30, "C03")
    # the text printed for every board the engine can hand back after its own previous answer:
    # exhaustive special two-ply chains (promotion then castling etc.), bestmove text = the move
    from props import oracle_fmt
    pres = C.run_ops(C.genops("pairs", 0, 1))
    attach_context(pres)
    for r in pres:
        if r["M"] != r["I"]:
            ctx.t2diff(r)
        oracle_fmt(ctx, r)
        oracle_state(ctx, r)       # a legal move that cannot be picked by its own text is mis-described
    run_traced(ctx, ["gogo", "cont"], 8 if q else 60)
    # in-process part
    sops = search_positions(ctx, 10 if q else 60, 30, "sweep 60 3", with_rep=False)
    sops += forced_positions(ctx, 8 if q else 60, "sweep 14 1")
    sres = C.run_ops(sops)
    t2_search(ctx, sres)
    k = consts()
    for posr, genr, srs in group_by_pos(sres):
        for sr in srs:
            if sr["I"] != "panic":
                check_sweep_group(ctx, posr, genr, sr, k)


HANDOVER_CONFIGS = [
    # (WALLEYE_VERIF_SCHED, clock ms) — slice = 0.8*(clock-100)/30 ms; hook H6 makes the thread reaching the
    # named point sleep: `accept` = improvement accepted by the clock check, not yet handed over;
    # `poll` = before every poll of the channel; `answer` = polling loop left, go not yet answered; `start` = search thread entered
    ("accept=60", 700),             # slice 16: the answer overtakes every improvement (defect D13: its info line came after)
    ("accept=12,answer=45", 700),   # an improvement gets through after the deadline but before the answer: it must be the answer
    ("accept=5", 1600),             # slice 40: several improvements get through, the last one may be overtaken
    ("start=30", 700),              # the search thread starts after the deadline
    ("answer=30", 700),             # the I/O thread is late
    ("accept=25,answer=10", 1000),  # slice 24
    ("poll=15", 1600),              # slice 40: the I/O thread polls rarely, several boards queue up in the channel
    ("poll=30,accept=2", 1600),     # ... and the deadline passes while boards are still queued
    # zero allowance: the answer must be the fall-back move however the first hand-over and the answer interleave
    ("answer=30", 0),
    ("start=20", 0),
    ("start=10,answer=30", 0),
]


def handover_sessions(ctx, n, prop):
    """the hand-over of moves and info lines between the two threads of a go under FORCED schedules
    (hook H6), judged by the characterisation proved for every schedule of the model
    (`go_stdout_comes_from_the_search`): the lines of a go are info* bestmove and nothing after it; the
    info lines are the first k improvements of an undisturbed long run; the bestmove is the first PV
    move of the last info line shown, the fall-back move when none was shown; a second go right after
    sees only its own lines"""
    if ctx.bs.trace_engine_error:
        ctx.notes.append("hook-enabled engine unavailable: hand-over sessions skipped")
        return
    poslines = [o[4:] for o in C.genops("search", ctx.seed + 21, n, 30) if o.startswith("pos ")]
    # (a position whose best move promotes: the PV printer omits the promotion letter, the bestmove line has it)
    poslines = ["position startpos", "position fen 8/2P5/8/8/5k2/8/1B6/2K5 w - - 0 1"] + poslines

    def strip(l):
        return re.sub(r" time \d+$", "", l)

    def pv0(info):
        t = info.split(" ")
        return t[2] if len(t) > 2 and t[1] == "pv" else None

    def one(pl):
        out = {"pos": pl, "ref": None, "fb": None, "runs": []}
        e = S.Engine(binary=C.ENGINE_TRACE)
        try:
            if not S.handshake(e):
                return out
            e.send(pl)
            r = S.go_and_wait(e, "go wtime 6100 btime 6100", 12)
            if not r["answered"]:
                return out
            out["ref"] = [strip(l) for l in r["infos"]]
            e.send(pl)
            r0 = S.go_and_wait(e, "go", 8)
            if not r0["answered"]:
                return out
            out["fb"] = r0["best"]
        finally:
            e.kill()
        for cfg, clock in HANDOVER_CONFIGS:
            e = S.Engine(binary=C.ENGINE_TRACE, env={"WALLEYE_VERIF_SCHED": cfg})
            try:
                if not S.handshake(e):
                    out["runs"].append((cfg, clock, None))
                    continue
                rec = []
                for rep in range(2):
                    e.send(pl)
                    e.send("go wtime %d btime %d" % (clock, clock))
                    lines, ok = e.read_until(lambda l: l.startswith("bestmove"), 10)
                    late = [l for _, l in e.drain(0.13)] if ok else []
                    rec.append({"answered": ok, "lines": [l for _, l in lines], "late": late})
                    if not ok:
                        break
                e.send("isready")
                _, ready = e.read_until(lambda l: l == "readyok", 5.0)
                out["runs"].append((cfg, clock, rec, ready))
            finally:
                e.kill()
        return out
    for o in S.run_parallel(one, poslines, workers=4):
        pl = o["pos"]
        if o["ref"] is None or o["fb"] is None:
            ctx.fail("handover-reference-run-unanswered", pos=pl)
            continue
        for run in o["runs"]:
            cfg, clock = run[0], run[1]
            ctx.count("handover_sessions")
            if run[2] is None:
                ctx.fail("no-handshake", pos=pl, sched=cfg)
                continue
            rec, ready = run[2], run[3]
            ctx.case(("handover", pl, cfg), True)
            if not ready:
                ctx.fail("not-ready-after-go", pos=pl, sched=cfg)
            for idx, g in enumerate(rec):
                where = {"pos": pl, "sched": cfg, "go": "go wtime %d btime %d" % (clock, clock), "which_go": idx + 1}
                if not g["answered"]:
                    ctx.fail("go-not-answered", **where)
                    break
                if g["late"]:
                    # a second bestmove breaks C03; an info line of an answered search breaks C18 (it is read as a
                    # line of the NEXT search: depth order, PV legality) and C16; elsewhere: broken correspondence
                    if any(l.startswith("bestmove") for l in g["late"]) or prop in ("C18", "C16"):
                        ctx.fail("output-after-bestmove", lines=g["late"][:4], **where)
                    else:
                        ctx.t2diff({"op": "handover session: %s | WALLEYE_VERIF_SCHED=%s | %s (go #%d): output after the bestmove"
                                          % (pl, cfg, where["go"], idx + 1), "M": "", "I": " / ".join(g["late"][:4])})
                body, best = g["lines"][:-1], g["lines"][-1]
                if any(not l.startswith("info ") for l in body):
                    ctx.fail("foreign-line-inside-a-go", lines=[l for l in body if not l.startswith("info ")][:4], **where)
                    continue
                infos = [strip(l) for l in body]
                m = min(len(infos), len(o["ref"]))
                if infos[:m] != o["ref"][:m]:
                    if prop == "C16":
                        ctx.fail("info-lines-are-not-the-first-improvements-of-the-search", shown=infos[:m][-3:], reference=o["ref"][:m][-3:], **where)
                    else:
                        ctx.t2diff({"op": "handover session: %s | WALLEYE_VERIF_SCHED=%s | %s (go #%d): info lines vs undisturbed run"
                                          % (pl, cfg, where["go"], idx + 1), "M": " / ".join(o["ref"][:m][-3:]), "I": " / ".join(infos[:m][-3:])})
                    continue
                expect = ("bestmove " + pv0(infos[-1])) if infos else o["fb"]
                if infos and best[:13] == expect:
                    expect = best       # the PV printer omits the promotion letter: from/to squares are compared
                if best != expect and prop == "C16" and clock == 0:
                    # C16: under a zero allowance the bestmove is that of a fresh engine, whatever the schedule
                    ctx.fail("zero-allowance-answer-depends-on-schedule", bestmove=best, fresh_engine=expect, **where)
                elif best != expect:
                    # not demanded by the property itself: a disagreement with the hand-over MODEL
                    # (Model/Handover: the answer takes what is left in the channel) = broken correspondence
                    ctx.t2diff({"op": "handover session: %s | WALLEYE_VERIF_SCHED=%s | %s (go #%d): bestmove vs last improvement shown (%s)"
                                      % (pl, cfg, where["go"], idx + 1, infos[-1] if infos else "none: fall-back move"),
                                "M": expect, "I": best})
                else:
                    ctx.sample({"pos": pl[:80], "sched": cfg, "infos_shown": len(infos), "answer": best})


def blackbox_fallback(ctx):
    """the correspondence harness does not build from this tree (e.g. a signature it relies on changed): the
    property is no longer shown.  For the properties about the two threads the search for a failing input can
    still go on against the real binary alone: forced-schedule sessions, and plain sessions with slices of a
    few milliseconds (many hand-overs per poll), each go to be answered once and followed by readyok."""
    if ctx.prop not in ("C03", "C08", "C16", "C17", "C18") or ctx.bs.engine_error:
        return
    handover_sessions(ctx, 3, ctx.prop)
    poslines = ["position startpos"] + [o[4:] for o in C.genops("search", ctx.seed + 51, 6, 30) if o.startswith("pos ")]
    plans = [(p, c) for p in poslines for c in (160, 175, 210, 250, 400)]

    def one(plan):
        pl, clock = plan
        e = S.Engine()
        try:
            if not S.handshake(e):
                return plan, "no-handshake"
            for rep in range(3):
                e.send(pl)
                r = S.go_and_wait(e, "go wtime %d btime %d" % (clock, clock), 6)
                if not r["answered"]:
                    return plan, "go-not-answered (go #%d)" % (rep + 1)
                if not r["ready"]:
                    return plan, "no-readyok-after-go (go #%d)" % (rep + 1)
                if r["n_best"] != 1:
                    return plan, "not-exactly-one-bestmove"
            return plan, "ok"
        finally:
            e.kill()
    for plan, status in S.run_parallel(one, plans, workers=4):
        ctx.case(("fallback", plan), True)
        ctx.count("fallback_sessions")
        if status != "ok":
            ctx.fail("session-with-tiny-slices", status=status, position=plan[0], go="go wtime %d btime %d (x3)" % (plan[1], plan[1]))


def stale_thread_sessions(ctx):
    """a search thread that outlives its `go`: `go` with a tiny slice on a position whose capture search
    takes seconds (the thread is still inside it when the answer is due), then a NEW position whose own
    search falls silent within milliseconds (a mate in one: every iteration is cut at once) searched
    with a slice long enough for the old thread to finish — whatever the old thread still does, the
    second answer must be a legal move of the second position"""
    q = ctx.quick
    heavy = [o[4:] for o in C.genops("heavy", ctx.seed + 9, 3 if q else 16) if o.startswith("pos ")]
    qops = C.genops("retromate", ctx.seed + 9, 3 if q else 16, "gen_all")
    qres = C.run_ops(qops)
    quiet = []
    for i, r in enumerate(qres):
        if r["op"].startswith("pos ") and i + 1 < len(qres) and qres[i + 1]["op"] == "gen all" and qres[i + 1]["S"] != "-":
            quiet.append((r["op"][4:], [m for m, _ in C.succ_list(qres[i + 1]["S"])]))
    plans = [(h, quiet[i % len(quiet)]) for i, h in enumerate(heavy)] if quiet else []

    def one(plan):
        h, (qp, legal) = plan
        e = S.Engine()
        try:
            if not S.handshake(e):
                return plan, "no-handshake", None
            e.send(h)
            r1 = S.go_and_wait(e, "go wtime 250 btime 250", 12)
            if not r1["answered"]:
                return plan, "first-go-unanswered", None
            e.send(qp)
            r2 = S.go_and_wait(e, "go movestogo 1 wtime 8100 btime 8100", 20)
            if not r2["answered"]:
                return plan, "second-go-unanswered", None
            return plan, "ok", (r2["best"], r2["n_best"])
        finally:
            e.kill()
    for plan, status, ans in S.run_parallel(one, plans, workers=6):
        h, (qp, legal) = plan
        ctx.count("stale_thread_sessions")
        ctx.case(("stale", h, qp), True)
        if status != "ok":
            ctx.fail("go-not-answered", pos=qp, after=h, status=status)
            continue
        best, nb = ans
        mv = best.split(" ")[1] if " " in best else ""
        if nb != 1:
            ctx.fail("not-exactly-one-bestmove", pos=qp, after=h, count=nb)
        if mv not in legal:
            ctx.fail("bestmove-not-legal", pos=qp, gos=["(after) " + h, "go wtime 250 btime 250", qp, "go movestogo 1 wtime 8100 btime 8100"],
                     move=mv, legal=legal[:50], note="answer of an earlier position's search thread?")


TERMINAL = ["position fen 7k/5Q2/6K1/8/8/8/8/8 b - - 0 1", "position fen 7k/5Q2/5K2/8/8/8/8/8 b - - 0 1",
            "position fen 1k6/8/1K6/8/8/8/8/7R w - - 0 1 moves h1h8", "position fen 8/8/8/8/8/2k5/2p5/2K5 w - - 0 1",
            "position fen R6k/8/6K1/8/8/8/8/8 b - - 0 1", "position startpos moves f2f3 e7e5 g2g4 d8h4",
            "position fen 5k2/5P2/5K2/8/8/8/8/8 b - - 0 1"]


def check_C08(ctx, deep=False):
    k = consts()
    ctx.rule = ("black-box timed sessions: legal positions incl. checkmated and stalemated ones, clocks 1 ms .. 3 s with movestogo "
                ">= 1; go must be answered (null move when no legal move) within slice + 300 ms (4 attempts before a report), then "
                "isready -> readyok, then a further position+go is served; in-process: with any expiry the search sends a move iff "
                "the root has one; non-trivial = terminal position or slice > 100 ms")
    if ctx.bs.engine_error:
        ctx.notes.append("engine binary unavailable")
        ctx.t2.append({"op": "<engine build>", "impl": ctx.bs.engine_error[-300:], "model": ""})
        return
    q = ctx.quick
    rnd = random.Random(ctx.seed)
    n = (24 if q else 400) * (2 if deep else 1)
    poslines = [o[4:] for o in C.genops("search", ctx.seed, n, 60) if o.startswith("pos ")]
    plans = []
    # terminal positions x every clock class (no usable clock => zero slice, tiny, normal)
    for p in TERMINAL:
        for clock in ([0, 60, 100, 101, 700] if q else [0, 1, 60, 100, 101, 150, 700, 2000]):
            plans.append((p, clock, rnd.choice([None, 1, 5, 30]), True))
    for p in poslines:
        plans.append((p, rnd.choice([1, 40, 150, 700, 1600, 3100]), rnd.choice([None, 1, 2, 30]), False))
    # positions whose capture search is enormous (lattices of mutually protected queens, SPEC-checked
    # variants): the first evaluation alone takes 0.5 s .. minutes, the slice here is 1 .. 50 ms
    heavy = [o[4:] for o in C.genops("heavy", ctx.seed, 8 if q else 40) if o.startswith("pos ")]
    ctx.stats["heavy_quiescence_positions"] = len(heavy)
    for p in heavy:
        for clock in ([150, 250] if q else [101, 150, 250, 700, 1600]):
            plans.append((p, clock, None, False))

    def one(plan):
        pos, clock, mtg, terminal = plan
        planned = plan_ms = plan_for(k, clock, mtg)
        last = None
        for attempt in range(4):
            e = S.Engine()
            try:
                if not S.handshake(e):
                    return plan, ("no-handshake", None)
                e.send(pos)
                go = ("go wtime %d btime %d" % (clock, clock) if clock else "go") + (" movestogo %d" % mtg if mtg else "")
                r = S.go_and_wait(e, go, planned / 1000.0 + 6)
                if not r["answered"]:
                    return plan, ("unanswered", None)
                delay = (r["t_best"] - r["t_go"]) * 1000
                if not r["ready"]:
                    return plan, ("no-readyok-after-go", delay)
                if terminal and r["best"] not in ("bestmove 0000", "bestmove (none)"):
                    return plan, ("terminal-position-answer:" + r["best"], delay)
                e.send("position startpos moves e2e4")
                r2 = S.go_and_wait(e, "go wtime 0 btime 0", 6)
                if not r2["answered"] or not re.fullmatch(r"bestmove [a-h][1-8][a-h][1-8][qrbn]?", r2["best"] or ""):
                    return plan, ("not-served-afterwards", delay)
                if delay <= planned + 300:
                    return plan, ("ok", delay)
                last = delay
            finally:
                e.kill()
        return plan, ("late", last)
    for plan, (status, delay) in S.run_parallel(one, plans, workers=4):
        ctx.count("sessions")
        ctx.case(plan, plan[3] or plan_for(k, plan[1], plan[2]) > 100)
        if status != "ok":
            ctx.fail("responsiveness", status=status, position=plan[0], clock=plan[1], movestogo=plan[2], delay_ms=delay)
        else:
            ctx.sample({"position": plan[0][:100], "clock": plan[1], "mtg": plan[2], "delay_ms": round(delay, 1)})
    # black box: the engine's OWN answer ends the game (it mates or stalemates), then `go` again
    # without a new `position`: the null move is due at once, and the engine must stay responsive.
    # The position reached is computed by the SPEC from the engine's first answer.
    enders = ["position fen 6k1/5ppp/8/8/8/8/5PPP/R5K1 w - - 0 1",
              "position fen 6k1/5ppp/8/8/8/8/5PPP/3R2K1 w - - 0 1",
              "position fen r5k1/5ppp/8/8/8/8/5PPP/6K1 b - - 0 1",
              "position fen 7k/8/5K2/6Q1/8/8/8/8 w - - 0 1",
              "position fen k7/8/1K6/8/8/8/8/7R w - - 0 1",
              "position fen 7k/5Q2/8/6K1/8/8/8/8 w - - 0 1",
              "position startpos moves f2f3 e7e5 g2g4",
              "position fen 8/8/8/8/8/5k2/7q/7K b - - 0 1 moves h2g2 h1g2"]
    if not q:
        enders += [o[4:] for o in C.genops("mate", ctx.seed, 40) if o.startswith("pos ")][:40]

    def ender(pos):
        e = S.Engine()
        try:
            if not S.handshake(e):
                return pos, None
            e.send(pos)
            out = []
            for i in range(3):
                r = S.go_and_wait(e, "go wtime 2100 btime 2100 movestogo 4", 400 / 1000.0 + 6)
                out.append(r)
                if not r["answered"] or not r["ready"] or r["best"] == "bestmove 0000":
                    break
            served = None
            if out and out[-1]["answered"] and out[-1]["ready"]:
                e.send("position startpos moves e2e4")
                r2 = S.go_and_wait(e, "go wtime 0 btime 0", 6)
                served = bool(r2["answered"] and re.fullmatch(r"bestmove [a-h][1-8][a-h][1-8][qrbn]?", r2["best"] or ""))
            return pos, (out, served)
        finally:
            e.kill()
    eres = S.run_parallel(ender, enders, workers=4)
    eops, eidx = [], []
    for pos, res in eres:
        ctx.count("game_ending_sessions")
        ctx.case(("ender", pos), True)
        if res is None:
            ctx.fail("responsiveness", status="no-handshake", position=pos)
            continue
        out, served = res
        seq = ["pos " + pos, "gen all"]
        for r in out:
            mv = (r["best"] or "").split(" ")[1] if r["answered"] and " " in (r["best"] or "") else ""
            if re.fullmatch(r"[a-h][1-8][a-h][1-8][qrbn]?", mv):
                seq += ["pick " + mv, "gen all"]
        eidx.append((pos, out, served, len(eops), len(seq)))
        eops += seq
    er = C.run_ops(eops) if eops else []
    for pos, out, served, start, ln in eidx:
        gens = [r for r in er[start:start + ln] if r["op"] == "gen all"]
        for i, r in enumerate(out):
            legal = [m for m, _ in C.succ_list(gens[i]["S"])] if i < len(gens) and gens[i]["S"] != "-" else None
            delay = (r["t_best"] - r["t_go"]) * 1000 if r["answered"] else None
            if not r["answered"]:
                ctx.fail("responsiveness", status="go-%d-unanswered-after-own-game-ending-answer" % (i + 1), position=pos,
                         earlier=[x["best"] for x in out[:i]])
                break
            if not r["ready"]:
                ctx.fail("responsiveness", status="no-readyok-after-go-%d" % (i + 1), position=pos)
                break
            if legal is not None and not legal and r["best"] != "bestmove 0000":
                ctx.fail("responsiveness", status="terminal-position-answer:" + str(r["best"]), position=pos, go=i + 1)
            if legal and r["best"] == "bestmove 0000":
                ctx.fail("responsiveness", status="null-move-in-non-terminal-position", position=pos, go=i + 1)
            if delay is not None and delay > 400 + 300 and legal is not None and not legal:
                ctx.fail("responsiveness", status="late-null-move", position=pos, delay_ms=delay)
        if served is False:
            ctx.fail("responsiveness", status="not-served-afterwards", position=pos)
    run_traced(ctx, ["terminal", "gogo"], 6 if q else 40)
    # "however the search and I/O threads are scheduled": forced interleavings of the hand-over (hook H6);
    # every go answered, readyok afterwards, a second position+go served
    handover_sessions(ctx, 2 if q else 20, "C08")
    # in-process: a move is sent iff the root has one, whatever the expiry
    tops = []
    for t in TERMINAL:
        tops += ["pos " + t, "gen all", "sweep 6 1"]
    tops += search_positions(ctx, 6 if q else 40, 30, "sweep 40 1", with_rep=False)
    tops += forced_positions(ctx, 8 if q else 60, "sweep 14 1")
    res = C.run_ops(tops)
    t2_search(ctx, res)
    for posr, genr, srs in group_by_pos(res):
        succ = C.succ_list(genr["I"]) if genr else []
        for sr in srs:
            for sec in C.impl_body(sr["op"], sr["I"]).split("~~"):
                d = parse_search(sec.partition("~")[2])
                if bool(d["all_sent"]) != bool(succ):
                    ctx.fail("sent-iff-root-has-a-move", where=[posr["op"], sr["op"], sec[:12]], root_moves=len(succ), sent=len(d["sent_list"]))


def plan_for(k, clock, mtg):
    return plan(k, clock, 0, mtg)


TRAFFIC = [
    ["position startpos moves e2e4 e7e5", "go wtime 300 btime 300", "ucinewgame"],
    ["position startpos moves g1f3 g8f6 f3g1 f6g8 g1f3 g8f6 f3g1 f6g8", "isready", "go wtime 200 btime 200"],
    ["setoption name Hash value 32", "foo bar", "", "ucinewgame", "position fen 8/P7/8/8/8/8/7k/K7 w - - 0 1", "go", "go"],
    ["position fen r3k2r/8/8/8/8/8/8/R3K2R w KQkq - 0 1 moves e1g1", "go wtime 150 btime 150", "go wtime 150 btime 150", "isready"],
    ["ucinewgame", "ucinewgame", "position startpos", "go movestogo 3", "debug on"],
    # every go parameter given once, then a search without them: nothing of a go may outlive it
    ["position startpos moves d2d4", "go wtime 400 btime 400 winc 700 binc 700 movestogo 2", "isready"],
]


CONT_STEMS = [
    "startpos",
    "fen r3k2r/pppq1ppp/2npbn2/2b1p3/2B1P3/2NPBN2/PPPQ1PPP/R3K2R w KQkq - 0 1",
    "fen r3k2r/pppq1ppp/2npbn2/2b1p3/2B1P3/2NPBN2/PPPQ1PPP/R3K2R b KQkq - 0 1",
    "fen r3k2r/ppp2ppp/2n2n2/3pp3/3PP3/2N2N2/PPP2PPP/R3K2R w KQkq - 0 1",
    "fen r3k2r/1pp2pp1/p1n2n1p/3Pp3/4P3/2N2N2/PPP2PPP/R3K2R w KQkq e6 0 1",
    "fen r3k2r/ppp2ppp/8/3pP3/8/8/PPP2PPP/R3K2R w KQkq d6 0 1",
    "fen r3k2r/8/8/8/8/8/1p6/R3K2R b KQkq - 0 1",
    "fen rnbqk2r/pppp1ppp/5n2/2b1p3/2B1P3/5N2/PPPP1PPP/RNBQK2R w KQkq - 4 4",
    "fen r1bqk2r/pppp1ppp/2n2n2/2b1p3/2B1P3/2N2N2/PPPP1PPP/R1BQK2R b KQkq - 0 1",
    "fen r3k2r/p1ppqpb1/bn2pnp1/3PN3/1p2P3/2N2Q1p/PPPBBPPP/R3K2R w KQkq - 0 1",
    "fen rnbq1k1r/pp1Pbppp/2p5/8/2B5/8/PPP1NnPP/RNBQK2R w KQ - 1 8",
    "fen r4rk1/1pp1qppp/p1np1n2/2b1p1B1/2B1P1b1/P1NP1N2/1PP1QPPP/R4RK1 w - - 0 10",
    "fen 8/2p5/3p4/KP5r/1R3p1k/8/4P1P1/8 w - - 0 1",
    "fen r3k2r/2pp1pp1/8/pP4Pp/8/8/P1PP1P1P/R3K2R w KQkq a6 0 1",
]


def continuation_sessions(ctx, plies):
    """GUI-style games: ONE persistent process receives the growing `position <stem> moves ...` + `go`
    before each of its moves (playing the first side, the second side, or both), exactly as a GUI
    drives an engine; every such request is also put to a FRESH process.  Zero allowance: the two
    answers must be identical at every ply (C16: the reply is a function of the position command and
    the go parameters alone).  The reference game follows the fresh answers.  Stems have castling
    rights, pending en passant, promotions and captures, so the engine's own replies include every
    kind of move."""
    cache = {}

    def fresh_answer(cmd):
        if cmd in cache:
            return cache[cmd]
        e = S.Engine()
        try:
            if not S.handshake(e):
                return None
            e.send(cmd)
            r = S.go_and_wait(e, "go", 6)
            a = r["best"] if r["answered"] else None
        finally:
            e.kill()
        cache[cmd] = a
        return a

    def one(plan):
        stem, mode = plan
        out = []
        a = S.Engine()
        try:
            if not S.handshake(a):
                return [("no-handshake", plan, None)]
            moves = []
            transcript = []
            for ply in range(plies):
                cmd = "position " + stem + ((" moves " + " ".join(moves)) if moves else "")
                ref = fresh_answer(cmd)
                if ref is None:
                    out.append(("fresh-unanswered", plan, {"command": cmd}))
                    break
                mine = (mode == "both") or (mode == "first" and ply % 2 == 0) or (mode == "second" and ply % 2 == 1)
                if mine:
                    a.send(cmd)
                    r = S.go_and_wait(a, "go", 6)
                    transcript += [cmd, "go", "-> " + str(r.get("best"))]
                    if not r["answered"]:
                        out.append(("persistent-unanswered", plan, {"transcript": transcript}))
                        break
                    out.append(("cmp", plan, {"ply": ply, "same": r["best"] == ref}))
                    if r["best"] != ref:
                        out.append(("answer-depends-on-earlier-position-go-traffic", plan,
                                    {"transcript": transcript[-12:], "fresh_process_answer": ref, "persistent_process_answer": r["best"]}))
                        break
                mv = ref.split()[1] if len(ref.split()) > 1 else "0000"
                if mv in ("0000", "(none)"):
                    break
                moves.append(mv)
            return out
        finally:
            a.kill()
    plans = [(st, mode) for st in CONT_STEMS for mode in ("first", "second", "both")]
    for res in S.run_parallel(one, plans, workers=8):
        for kind, plan, d in res:
            if kind == "cmp":
                ctx.count("continuation_requests")
                ctx.case(("cont", plan, d["ply"]), True)
            else:
                ctx.fail(kind, stem=plan[0], persistent_plays=plan[1], **(d or {}))


def outliving_thread_sessions(ctx):
    """earlier traffic whose search thread OUTLIVES its go (queen lattice, small slice): afterwards the
    same zero-allowance request is put again and again for a few seconds — while the old thread is
    still running, when it ends, and after — and every answer must be the fresh engine's answer"""
    q = ctx.quick
    heavy = [o[4:] for o in C.genops("heavy", ctx.seed + 15, 3 if q else 12) if o.startswith("pos ")]
    probes = ["position startpos moves e2e4 e7e5", "position startpos", "position fen r3k2r/8/8/8/8/8/8/R3K2R w KQkq - 0 1"]

    def fresh(pos):
        e = S.Engine()
        try:
            if not S.handshake(e):
                return None
            e.send(pos)
            r = S.go_and_wait(e, "go", 6)
            return r["best"] if r["answered"] else None
        finally:
            e.kill()
    expect = dict((p, fresh(p)) for p in probes)

    def one(plan):
        h, probe = plan
        e = S.Engine()
        out = []
        try:
            if not S.handshake(e):
                return plan, None
            e.send(h)
            r1 = S.go_and_wait(e, "go wtime 350 btime 350 movestogo 1", 15)
            if not r1["answered"]:
                return plan, None
            t_end = time.time() + (5.0 if q else 9.0)
            while time.time() < t_end:
                e.send(probe)
                r = S.go_and_wait(e, "go", 6)
                out.append(r["best"] if r["answered"] else None)
                time.sleep(0.25)
            return plan, out
        finally:
            e.kill()
    plans = [(h, probes[i % len(probes)]) for i, h in enumerate(heavy)]
    for plan, out in S.run_parallel(one, plans, workers=6):
        h, probe = plan
        ctx.count("outliving_thread_sessions")
        ctx.case(("outlive", h, probe), True)
        if out is None:
            ctx.fail("session-unanswered", position=probe, traffic=[h, "go wtime 350 btime 350 movestogo 1"])
            continue
        bad = [(i, a) for i, a in enumerate(out) if a != expect[probe]]
        if bad:
            ctx.fail("zero-allowance-answer-depends-on-history", position=probe,
                     traffic=[h, "go wtime 350 btime 350 movestogo 1", "(then the probe repeated every 0.25 s)"],
                     fresh=expect[probe], after=bad[0][1], which_repeat=bad[0][0], again=out[-1])


def check_C16(ctx, deep=False):
    ctx.rule = ("black-box pairs: the probed `position X` + `go` in a fresh process and after prior traffic (games with repetitions, "
                "searches, ucinewgame, setoption, garbage, consecutive go's); zero allowance => identical bestmove; timed (two "
                "different clocks) => info lines minus `time` in prefix relation; the same request repeated in one session gives "
                "the same answer; static audit: no process-global mutable state in /repo/src outside the hook module; "
                "non-trivial = pair whose traffic contains at least one search")
    if ctx.bs.engine_error:
        ctx.notes.append("engine binary unavailable")
        ctx.t2.append({"op": "<engine build>", "impl": ctx.bs.engine_error[-300:], "model": ""})
        return
    q = ctx.quick
    n = (10 if q else 150) * (2 if deep else 1)
    probes = [o[4:] for o in C.genops("search", ctx.seed, n, 40) if o.startswith("pos ")]
    probes = ["position startpos", "position startpos moves g1f3"] + probes
    rnd = random.Random(ctx.seed)
    plans = [(p, rnd.choice(TRAFFIC), rnd.choice([0, 0, 1])) for p in probes]
    plans.append(("position startpos", TRAFFIC[1], 1))
    # mode 2: `go wtime 90 btime 90` — clocks given but at or below the margin and no increment tokens: the plan
    # is zero, so the answer is the fall-back move of a fresh engine whatever earlier go's said (increments,
    # movestogo); after the traffic that gave every go parameter once, and after two others
    for p in probes[:6]:
        plans.append((p, TRAFFIC[5], 2))
        plans.append((p, rnd.choice(TRAFFIC[:5]), 2))
    # probes WITHOUT a move list after a game over the same squares that repeated positions: a
    # repetition record that survives the new `position` shows as draw scores in the probe's search
    for o in C.genops("rep", ctx.seed + 5, 6 if q else 80, 12, 4):
        if o.startswith("pos position fen ") and " moves " in o:
            full = o[4:]
            bare = full.split(" moves ")[0]
            plans.append((bare, [full, "go wtime 150 btime 150", "ucinewgame", "isready"], 1))

    def probe(e, pos, timed, clock):
        e.send(pos)
        if timed == 2:
            r = S.go_and_wait(e, "go wtime 90 btime 90", 12)
        elif timed:
            r = S.go_and_wait(e, "go wtime %d btime %d" % (clock, clock), 12)
        else:
            r = S.go_and_wait(e, "go", 6)
        if not r["answered"]:
            return None
        return r["best"], [re.sub(r" time \d+$", "", l) for l in r["infos"]]

    def one(plan):
        pos, traffic, timed = plan
        e = S.Engine()
        try:
            if not S.handshake(e):
                return plan, None, None, None
            fresh = probe(e, pos, timed, 2100)
        finally:
            e.kill()
        e = S.Engine()
        try:
            if not S.handshake(e):
                return plan, None, None, None
            for l in traffic:
                if l.startswith("go"):
                    S.go_and_wait(e, l, 6)
                else:
                    e.send(l)
            after = probe(e, pos, timed, 4100)
            again = probe(e, pos, timed, 4100)
            return plan, fresh, after, again
        finally:
            e.kill()
    for plan, fresh, after, again in S.run_parallel(one, plans, workers=4):
        pos, traffic, timed = plan
        ctx.count("session_pairs")
        ctx.case((pos, tuple(traffic), timed), any(l.startswith("go") for l in traffic))
        if fresh is None or after is None or again is None:
            ctx.fail("session-unanswered", position=pos, traffic=traffic)
            continue
        if not timed or timed == 2:
            if fresh[0] != after[0] or after[0] != again[0]:
                ctx.fail("zero-allowance-answer-depends-on-history", position=pos, traffic=traffic, fresh=fresh[0], after=after[0], again=again[0])
            else:
                ctx.sample({"position": pos[:100], "answer": fresh[0]})
        else:
            for name, x, y in (("fresh-vs-after", fresh[1], after[1]), ("after-vs-again", after[1], again[1])):
                m = min(len(x), len(y))
                if x[:m] != y[:m]:
                    ctx.fail("reported-improvements-depend-on-history", which=name, position=pos, traffic=traffic,
                             a=x[:m][-2:], b=y[:m][-2:])
    continuation_sessions(ctx, 10 if q else 24)
    outliving_thread_sessions(ctx)
    handover_sessions(ctx, 2 if q else 20, "C16")
    run_traced(ctx, ["cont", "rep", "gogo", "garbage"], 8 if q else 60)
    # static audit of process-global state (T3)
    hits = []
    for fn in sorted(os.listdir(os.path.join(C.REPO, "src"))):
        if fn == "verif.rs" or not fn.endswith(".rs"):
            continue
        text = open(os.path.join(C.REPO, "src", fn), encoding="utf-8").read()
        text = re.sub(r"/\*.*?\*/", "", text, flags=re.S)
        text = re.sub(r"//[^\n]*", "", text)
        for m in re.finditer(r"\bstatic\s+mut\b|\bthread_local!|\blazy_static!|\bOnceCell\b|\bOnceLock\b|\bstatic\s+\w+\s*:\s*(?:Mutex|RwLock|Atomic)", text):
            hits.append("%s: %s" % (fn, m.group(0)))
    ctx.stats["global_state_audit_hits"] = hits
    if hits:
        # not a failing input by itself: the argument "only board and table survive between commands"
        # is no longer shown (T3); reported as a broken tie, the session pairs above do the searching
        ctx.t2.append({"op": "<T3 global state audit>", "impl": "; ".join(hits), "model": "no process-global mutable state"})
        ctx.count("t2_diffs")
