#!/bin/bash
# seed_confirm.sh <worktree> : confirm a seeded change: suite passes with it; demo fails with it and passes without it
wt=$1; cd $wt || exit 2
git diff -- src > /tmp/seed_confirm.diff
if ! diff -q <(git diff -- src) patch.diff >/dev/null; then echo "NOTE: patch.diff differs from working tree diff"; fi
echo "== suite with change"; cargo test --offline 2>&1 | grep -E "^test result" 
demo=""
for d in demo/run_demo.sh demo/run_test_demo.sh demo/demo.sh; do [ -f $d ] && demo=$d && break; done
echo "== demo ($demo) WITH change"; bash $demo > /tmp/seed_demo_with.txt 2>&1; echo "rc=$?"; tail -3 /tmp/seed_demo_with.txt
git apply -R /tmp/seed_confirm.diff
echo "== demo WITHOUT change"; bash $demo > /tmp/seed_demo_without.txt 2>&1; echo "rc=$?"; tail -3 /tmp/seed_demo_without.txt
git apply /tmp/seed_confirm.diff
git status --short | head -5
