#!/usr/bin/env python3
"""./check <Cnn> --tier quick|thorough [--replay F]

One run = (1) T1 translator, (2) kernel re-check of the property's theorems (lake build of
Walleye.Props.<Cnn> + axiom audit), (3) harness/engine rebuilt from /repo's working tree,
(4) correspondence model<->implementation (T2) and implementation<->specification oracle on
generated ops, (5) verdict.  See DESIGN.md section 2.5."""
import argparse
import json
import os
import sys
import time

sys.path.insert(0, os.path.dirname(os.path.abspath(__file__)))
import common as C
import props


def main():
    ap = argparse.ArgumentParser()
    ap.add_argument("prop")
    ap.add_argument("--tier", default=os.environ.get("VERIF_TIER", "quick"))
    ap.add_argument("--replay")
    args = ap.parse_args()
    seed = int(os.environ.get("VERIF_SEED", "20260929"))
    prop = args.prop
    if prop not in props.CHECKS:
        print("unknown property", prop)
        sys.exit(2)
    t0 = time.time()
    C.set_tier(args.tier)
    if args.replay:
        sys.exit(props.replay(prop, args.replay))
    bs = C.BuildState()
    spec = props.CHECKS[prop]
    # --- build everything from the current tree
    ok_h = C.build_harness(bs)
    ok_t = C.run_translator(bs) if ok_h else False
    if spec.get("engine"):
        C.build_engine(bs)
    if spec.get("trace"):
        C.build_engine_trace(bs)
    # a translator failure is a broken tie; the previously generated constants (if any) are still
    # used to search for a concrete failing input
    lean_ok = C.lake_build(bs, ["wvm"]) if ok_h else False
    proof_ok = C.lake_build(bs, ["Walleye.Props." + prop]) if ok_t else False
    audit = props.audit(prop, bs) if proof_ok else {"theorems": [], "bad": ["proof module does not build"]}
    if proof_ok and args.tier == "thorough":
        # independent re-check of the compiled proof module by the toolchain's leanchecker
        r = C.sh(["lake", "env", "leanchecker", "Walleye.Props." + prop], cwd=C.LEAN, timeout=3600)
        audit["leanchecker"] = "ok" if r.returncode == 0 else (r.stdout + r.stderr)[-500:]
        if r.returncode != 0:
            audit["bad"].append("leanchecker rejected Walleye.Props.%s: %s" % (prop, audit["leanchecker"]))
    ctx = props.Ctx(prop, args.tier, seed, bs, lean_ok and ok_h, proof_ok, audit)
    rc = props.run_check(ctx, spec)
    ctx.finish(time.time() - t0)
    sys.exit(rc)


if __name__ == "__main__":
    main()
