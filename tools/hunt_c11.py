#!/usr/bin/env python3
"""hunt_c11.py <seed> <n> [depth]: exploration for C11 beyond iteration 3 (null-move pruning active):
zugzwang-prone small endings, the REAL search to the end of iteration <depth>, every `score mate N`
(|N| <= 4) judged by the Lean mate solver. Prints every false announcement. Not a registered check:
used to look for a concrete failing input (L2 in DESIGN.md)."""
import re, sys, os
sys.path.insert(0, os.path.dirname(os.path.abspath(__file__)))
import common as C
import props, props2
from props2 import INFO_RE, parse_search, group_by_pos

seed, n = int(sys.argv[1]), int(sys.argv[2])
depth = int(sys.argv[3]) if len(sys.argv) > 3 else 6
ops = C.genops("zug", seed, n, "gen_all", "searchd_%d" % depth)
res = C.run_ops(ops)
follow = []
t2 = 0
for posr, genr, srs in group_by_pos(res):
    for sr in srs:
        if sr["I"] == "panic":
            print("PANIC", posr["op"], sr["op"]); continue
        body = C.impl_body(sr["op"], sr["I"])
        if sr["M"] is None or body != sr["M"]:
            t2 += 1
        d = parse_search(body)
        roots = int(d.get("roots", "0"))
        last = {}
        for i, line in enumerate(d["info_list"]):
            m = INFO_RE.match(line)
            if m:
                last[int(m.group(2))] = i
        for i, line in enumerate(d["info_list"]):
            m = INFO_RE.match(line)
            if not m or m.group(4) != "mate":
                continue
            dep, val, first = int(m.group(2)), int(m.group(5)), m.group(1).split()[0]
            if abs(val) > 4:
                continue
            if val > 0:
                follow.append((posr["op"], "matecheck %d %s" % (val, first), line))
            elif last.get(dep) == i and dep < roots:
                follow.append((posr["op"], "matecheck %d -" % val, line))
uniq = sorted(set(follow))
fops = []
for pos, mc, line in uniq:
    fops += [pos, mc]
fres = C.run_ops(fops) if fops else []
false = 0
for i in range(0, len(fres), 2):
    pos, mc, line = uniq[i // 2]
    if fres[i + 1]["S"] == "false":
        false += 1
        print("FALSE-MATE-ANNOUNCEMENT", pos, "|", line, "|", mc)
print("positions=%d claims=%d false=%d t2_diffs=%d" % (sum(1 for o in ops if o.startswith("pos ")), len(uniq), false, t2))
