#!/usr/bin/env python3
"""seed_eval.py <worktree> <prop>...  : run the given checks against a scratch worktree (WALLEYE_REPO)
and print one line per check.  Used only while evaluating seeded changes; never touches /repo."""
import os, subprocess, sys, time
wt = sys.argv[1]
for p in sys.argv[2:]:
    t = time.time()
    env = dict(os.environ, WALLEYE_REPO=wt)
    try:
        r = subprocess.run(["/verif/check", p, "--tier", "quick"], capture_output=True, text=True, env=env, timeout=2400)
    except subprocess.TimeoutExpired:
        print("%s TIMEOUT after 2400 s (the check itself did not end: a defect of the machinery)" % p)
        subprocess.run(["pkill", "-9", "-f", "wvh"]); subprocess.run(["pkill", "-9", "-f", "wvm run"])
        continue
    lines = [l for l in r.stdout.splitlines() if l.startswith(("VIOLATION", "KNOWN", p + " "))]
    print("%s rc=%d %.0fs | %s" % (p, r.returncode, time.time() - t, " | ".join(l[:200] for l in lines)))
