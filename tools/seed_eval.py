#!/usr/bin/env python3
"""seed_eval.py <worktree> <prop>...  : run the given checks against a scratch worktree (WALLEYE_REPO)
and print one line per check.  Used only while evaluating seeded changes; never touches /repo."""
import os, subprocess, sys, time
wt = sys.argv[1]
for p in sys.argv[2:]:
    t = time.time()
    env = dict(os.environ, WALLEYE_REPO=wt)
    r = subprocess.run(["/verif/check", p, "--tier", "quick"], capture_output=True, text=True, env=env)
    lines = [l for l in r.stdout.splitlines() if l.startswith(("VIOLATION", "KNOWN", p + " "))]
    print("%s rc=%d %.0fs | %s" % (p, r.returncode, time.time() - t, " | ".join(l[:200] for l in lines)))
