#!/usr/bin/env python3
"""seed_save.py <worktree> <name> <property> <needs> -- <caught-by results...>"""
import json, os, shutil, sys
wt, name, prop, needs = sys.argv[1:5]
results = sys.argv[6:]
dst = os.path.join("/verif/seeded", name)
os.makedirs(dst, exist_ok=True)
shutil.copy(os.path.join(wt, "patch.diff"), os.path.join(dst, "patch.diff"))
if os.path.isdir(os.path.join(wt, "demo")):
    shutil.copytree(os.path.join(wt, "demo"), os.path.join(dst, "demo"), dirs_exist_ok=True,
                    ignore=shutil.ignore_patterns("_work", "_target", "target"))
if os.path.exists(os.path.join(wt, "NOTES.md")):
    shutil.copy(os.path.join(wt, "NOTES.md"), os.path.join(dst, "NOTES.md"))
meta = {"breaks_property": prop, "needs_to_manifest": needs, "origin": "independent sub-agent given only the property text and a scratch worktree",
        "confirmed_by_me": ["cargo test --offline in the scratch worktree: 107 passed with the change",
                            "demo fails with the change and passes with it reverse-applied (tools/seed_confirm.sh)"],
        "checks_run_against_it": results}
json.dump(meta, open(os.path.join(dst, "meta.json"), "w"), indent=1)
print("saved", dst)
