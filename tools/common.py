"""Shared plumbing for ./check: builds, running ops through the implementation (wvh) and the
model/spec (wvm), canonical comparisons, evidence and verdict output."""
import hashlib
import json
import os
import subprocess
import sys
import time

VERIF = os.path.dirname(os.path.dirname(os.path.abspath(__file__)))
REPO = os.environ.get("WALLEYE_REPO", "/repo")
BUILD = os.path.join(VERIF, "build")
LEAN = os.path.join(VERIF, "lean")
# scratch trees (WALLEYE_REPO, used only when evaluating seeded changes) get their own target
# directories: cargo's mtime fingerprints cannot tell two source trees of the same package apart
_SUFFIX = "" if REPO == "/repo" else "-" + hashlib.sha256(REPO.encode()).hexdigest()[:8]
WVH = os.path.join(BUILD, "harness-target" + _SUFFIX, "debug", "wvh")
WVM = os.path.join(LEAN, ".lake", "build", "bin", "wvm")
ENGINE = os.path.join(BUILD, "repo-target" + _SUFFIX, "release", "walleye")
# the same sources built WITH the hooks: used only for the state trace of the UCI loop (hook H5)
ENGINE_TRACE = os.path.join(BUILD, "repo-target-trace" + _SUFFIX, "release", "walleye")
NCPU = os.cpu_count() or 4

ALLOWED_AXIOMS = {"propext", "Classical.choice", "Quot.sound"}


def log(msg):
    print(msg, flush=True)


def sh(cmd, cwd=None, env=None, timeout=None, input=None):
    e = dict(os.environ)
    e["CARGO_NET_OFFLINE"] = "true"
    if env:
        e.update(env)
    return subprocess.run(cmd, cwd=cwd, env=e, capture_output=True, text=True, timeout=timeout, input=input)


class BuildState:
    """what went wrong while rebuilding the model / proofs / harness (ties T1, proofs)"""

    def __init__(self):
        self.translator_error = None
        self.harness_error = None
        self.engine_error = None
        self.trace_engine_error = None
        self.lean_errors = {}      # module -> error text
        self.axioms = {}           # theorem -> [axioms]
        self.forbidden = []        # textual scan hits
        self.theorems = {}         # property -> [theorem names]


def build_harness(bs):
    os.makedirs(BUILD, exist_ok=True)
    lock_src = os.path.join(REPO, "Cargo.lock")
    lock_dst = os.path.join(VERIF, "harness", "Cargo.lock")
    if os.path.exists(lock_src) and not os.path.exists(lock_dst):
        with open(lock_src) as f, open(lock_dst, "w") as g:
            g.write(f.read())
    r = sh(["cargo", "build", "--offline"], cwd=os.path.join(VERIF, "harness"),
           env={"CARGO_TARGET_DIR": os.path.join(BUILD, "harness-target" + _SUFFIX), "WALLEYE_REPO": REPO})
    if r.returncode != 0:
        bs.harness_error = (r.stderr or r.stdout)[-4000:]
        return False
    z = sh([WVH, "zobrist"])
    if z.returncode != 0 or len(z.stdout.splitlines()) != 1745:
        bs.harness_error = "zobrist dump failed: " + (z.stderr or z.stdout)[-500:]
        return False
    zp = os.path.join(BUILD, "zobrist.txt")
    old = open(zp).read() if os.path.exists(zp) else None
    if old != z.stdout:
        with open(zp, "w") as f:
            f.write(z.stdout)
    return True


def build_engine(bs):
    """the real release binary, hooks off, for black-box sessions"""
    r = sh(["cargo", "build", "--release", "--offline"], cwd=REPO,
           env={"CARGO_TARGET_DIR": os.path.join(BUILD, "repo-target" + _SUFFIX)})
    if r.returncode != 0:
        bs.engine_error = (r.stderr or r.stdout)[-4000:]
        return False
    return True


def build_engine_trace(bs):
    """release binary with --cfg walleye_verif (hook H5: WALLEYE_VERIF_TRACE prints the loop state)"""
    r = sh(["cargo", "build", "--release", "--offline"], cwd=REPO,
           env={"CARGO_TARGET_DIR": os.path.join(BUILD, "repo-target-trace" + _SUFFIX), "RUSTFLAGS": "--cfg walleye_verif"})
    if r.returncode != 0:
        bs.trace_engine_error = (r.stderr or r.stdout)[-4000:]
        return False
    return True


def run_model_only(lines):
    """ops that only the model driver answers (e.g. `sess`); returns the M lines"""
    ol, rc, err = _run_lines([WVM, "run"], lines)
    if len(ol) != 2 * len(lines):
        raise RuntimeError("model driver produced %d lines for %d ops (rc=%s) %s" % (len(ol), len(lines), rc, err[-300:]))
    return [ol[2 * i][2:] for i in range(len(lines))]


def run_translator(bs):
    r = sh([sys.executable, os.path.join(VERIF, "tools", "gen_constants.py"), "--require-zobrist"],
           env={"WALLEYE_REPO": REPO})
    if r.returncode != 0:
        bs.translator_error = (r.stdout + r.stderr).strip()[-2000:]
        return False
    return True


def lake_build(bs, targets):
    """build targets one lake call; on failure find which modules failed"""
    r = sh(["lake", "build"] + targets, cwd=LEAN, timeout=3600)
    if r.returncode == 0:
        return True
    out = r.stdout + r.stderr
    failed = []
    for line in out.splitlines():
        line = line.strip()
        if line.startswith("- "):
            failed.append(line[2:].strip())
    errs = [l for l in out.splitlines() if l.startswith("error:")]
    for m in failed or ["<unknown>"]:
        bs.lean_errors[m] = "\n".join(errs[:20])
    return False


def scan_forbidden():
    """textual scan of everything under lean/Walleye for constructs the proofs must not use"""
    import re
    hits = []
    pat = re.compile(r"\b(sorry|admit|native_decide|bv_decide|implemented_by|unsafe)\b|^\s*axiom\s|maxHeartbeats\s+0\b")
    for root, _, files in os.walk(os.path.join(LEAN, "Walleye")):
        for fn in files:
            if not fn.endswith(".lean"):
                continue
            p = os.path.join(root, fn)
            text = open(p, encoding="utf-8").read()
            # strip comments
            text = re.sub(r"/-.*?-/", lambda m: "\n" * m.group(0).count("\n"), text, flags=re.S)
            for i, line in enumerate(text.splitlines(), 1):
                line = re.sub(r"--.*", "", line)
                if pat.search(line):
                    hits.append("%s:%d: %s" % (os.path.relpath(p, VERIF), i, line.strip()[:120]))
    return hits


def parse_axioms(output):
    """output of `lake env lean Walleye/Audit.lean`: blocks `'name' depends on axioms: [a, b]` or
    `'name' does not depend on any axioms`"""
    import re
    res = {}
    text = output.replace("\n ", " ")
    for m in re.finditer(r"'([^']+)' depends on axioms: \[([^\]]*)\]", text, flags=re.S):
        res[m.group(1)] = [a.strip() for a in m.group(2).replace("\n", " ").split(",") if a.strip()]
    for m in re.finditer(r"'([^']+)' does not depend on any axioms", text):
        res[m.group(1)] = []
    return res


# ---------------------------------------------------------------- running ops

# one budget per check run for the harness / model driver processes: a change to the code can make the real
# search run on and on (e.g. a clock that stops answering) — the check must still end, reporting the broken tie.
# quick tier: ~10x the slowest quick check; thorough: the old hour per call.
RUN_TIMEOUT = 420 if os.environ.get("VERIF_TIER", "quick") != "thorough" else 3600
_TIMED_OUT = []


def set_tier(tier):
    global RUN_TIMEOUT
    RUN_TIMEOUT = 3600 if tier == "thorough" else 420


def _run_lines(cmd, lines, timeout=None):
    if _TIMED_OUT:
        raise RuntimeError("%s did not finish within %d s on an earlier batch of this run; no further batches are started"
                           % (_TIMED_OUT[0], RUN_TIMEOUT))
    data = "\n".join(lines) + "\n"
    try:
        r = subprocess.run(cmd, input=data, capture_output=True, text=True, timeout=timeout or RUN_TIMEOUT)
    except subprocess.TimeoutExpired:
        _TIMED_OUT.append(os.path.basename(cmd[0]))
        raise RuntimeError("%s did not finish within %d s (batch of %d ops starting with %r)"
                           % (os.path.basename(cmd[0]), timeout or RUN_TIMEOUT, len(lines), lines[0][:120] if lines else ""))
    return r.stdout.splitlines(), r.returncode, r.stderr


def _chunks(ops, n):
    """split ops into n chunks at `fen`/`pos` boundaries (each chunk starts a fresh context)"""
    starts = [i for i, o in enumerate(ops) if o.startswith("fen ") or o.startswith("pos ") or i == 0]
    starts = sorted(set(starts))
    if len(starts) <= 1 or n <= 1:
        return [ops]
    per = max(1, len(ops) // n)
    cuts = [0]
    for s in starts:
        if s - cuts[-1] >= per:
            cuts.append(s)
    cuts.append(len(ops))
    return [ops[cuts[i]:cuts[i + 1]] for i in range(len(cuts) - 1) if cuts[i] < cuts[i + 1]]


def _model_line(op, impl_out):
    """the op as the model driver must see it (search ops carry k and the order log of the engine)"""
    if op.startswith("searchd "):
        parts = impl_out.split("~")
        k = parts[0][2:]
        ordl = [p for p in parts if p.startswith("ord=")]
        if k == "-" or not ordl:
            return None
        return "searchd %s %s %s" % (op.split()[1], k, ordl[0][4:])
    if op.startswith("search "):
        parts = impl_out.split("~")
        ordl = [p for p in parts if p.startswith("ord=")]
        return "search %s %s" % (op.split()[1], ordl[0][4:] if ordl else "")
    if op.startswith("sweep "):
        secs = impl_out.split("~~")
        if not secs or not secs[-1].startswith("ord="):
            return None
        ks = [s.split("~")[0][2:] for s in secs[:-1]]
        return "sweep %s %s" % (",".join(ks), secs[-1][4:])
    return op


def impl_body(op, impl_out):
    """implementation output in the form comparable with the model line"""
    if op.startswith("searchd "):
        parts = impl_out.split("~")
        return "~".join(p for p in parts[1:] if not p.startswith("ord="))
    if op.startswith("search "):
        return "~".join(p for p in impl_out.split("~") if not p.startswith("ord="))
    if op.startswith("sweep "):
        secs = impl_out.split("~~")
        return "~~".join(s for s in secs if not s.startswith("ord="))
    return impl_out


def run_ops(ops, parallel=True, want_model=True):
    """returns list of dicts {op, I, M, S}; chunks are run in parallel processes"""
    from concurrent.futures import ThreadPoolExecutor
    chunks = _chunks(ops, NCPU * 2 if parallel else 1)

    def one(chunk):
        il, rc, err = _run_lines([WVH], chunk)
        il = [l[2:] for l in il if l.startswith("I ")]
        if len(il) != len(chunk):
            raise RuntimeError("harness produced %d lines for %d ops (rc=%s) %s" % (len(il), len(chunk), rc, err[-300:]))
        res = [{"op": o, "I": i, "M": None, "S": "-"} for o, i in zip(chunk, il)]
        if want_model:
            mlines = []
            idx = []
            for j, (o, i) in enumerate(zip(chunk, il)):
                ml = _model_line(o, i)
                if ml is not None:
                    mlines.append(ml)
                    idx.append(j)
            ol, rc, err = _run_lines([WVM, "run"], mlines)
            if len(ol) != 2 * len(mlines):
                raise RuntimeError("model driver produced %d lines for %d ops (rc=%s) %s" % (len(ol), len(mlines), rc, err[-300:]))
            for n, j in enumerate(idx):
                res[j]["M"] = ol[2 * n][2:]
                res[j]["S"] = ol[2 * n + 1][2:]
        return res

    out = []
    with ThreadPoolExecutor(max_workers=NCPU) as ex:
        for r in ex.map(one, chunks):
            out.extend(r)
    return out


def genops(kind, seed, *args):
    r = subprocess.run([WVM, "genops", kind, str(seed)] + [str(a) for a in args], capture_output=True, text=True, timeout=3600)
    if r.returncode != 0:
        raise RuntimeError("genops failed: " + r.stderr[-300:])
    lines = [l for l in r.stdout.splitlines() if l]
    bad = [l for l in lines if l.startswith("canonbad ")]
    if bad:
        # the SPEC's FEN printer and the canonical text of Proofs/FenFaithful disagree: our own machinery is inconsistent
        raise RuntimeError("genops: FEN text is not the canonical text of its position: " + bad[0][:200])
    return lines


# ---------------------------------------------------------------- canonical projections

def state7(state_text):
    """first seven fields: placement side rights ep wk bk key"""
    return " ".join(state_text.split(" ")[:7])


def state4(state_text):
    return " ".join(state_text.split(" ")[:4])


def succ_list(text):
    """'N a|state;b|state' -> list of (mv, state)"""
    sp = text.split(" ", 1)
    if len(sp) < 2 or not sp[1]:
        return []
    out = []
    for item in sp[1].split(";"):
        mv, _, st = item.partition("|")
        out.append((mv, st))
    return out


# ---------------------------------------------------------------- evidence / verdict

def write_replay(prop, payload):
    d = os.path.join(VERIF, "replays", prop)
    os.makedirs(d, exist_ok=True)
    text = json.dumps(payload, indent=1, sort_keys=True)
    h = hashlib.sha256(text.encode()).hexdigest()[:12]
    p = os.path.join(d, h + ".json")
    with open(p, "w") as f:
        f.write(text)
    return p


def load_known_findings():
    p = os.path.join(VERIF, "known_findings.json")
    if not os.path.exists(p):
        return []
    return json.load(open(p)).get("findings", [])


def write_evidence(prop, tier, seed, level, coverage, assumptions, wall_s, violations):
    # evidence describes runs against /repo itself; a run against another source tree (seeded-change
    # evaluation via WALLEYE_REPO) writes under build/ instead
    d = os.path.join(VERIF, "evidence") if os.path.realpath(REPO) == "/repo" else os.path.join(VERIF, "build", "evidence-other-tree")
    os.makedirs(d, exist_ok=True)
    ev = {"property_id": prop, "tier": tier, "seed": seed, "level": level, "coverage": coverage,
          "assumptions": assumptions, "wall_s": round(wall_s, 2), "violations": violations}
    with open(os.path.join(d, prop + ".json"), "w") as f:
        json.dump(ev, f, indent=1)
