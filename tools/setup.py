#!/usr/bin/env python3
"""setup after a fresh restore: harness, zobrist dump, translator, full Lean build, release engine."""
import os, sys
sys.path.insert(0, os.path.dirname(os.path.abspath(__file__)))
import common as C
bs = C.BuildState()
ok = C.build_harness(bs)
print("harness:", "ok" if ok else bs.harness_error)
ok = ok and C.run_translator(bs)
print("translator:", "ok" if not bs.translator_error else bs.translator_error)
C.build_engine(bs)
print("engine:", "ok" if not bs.engine_error else bs.engine_error[-300:])
C.build_engine_trace(bs)
print("engine (hooks on, state trace):", "ok" if not bs.trace_engine_error else bs.trace_engine_error[-300:])
mods = ["wvm"] + ["Walleye.Props.C%02d" % i for i in range(1, 19)]
ok2 = C.lake_build(bs, mods)
print("lake build:", "ok" if ok2 else bs.lean_errors)
sys.exit(0 if ok and ok2 and not bs.engine_error and not bs.trace_engine_error else 1)
