"""Per-property checks: op generation, oracles, verdict, evidence."""
import json
import os
import re
import subprocess
import time

import common as C

TRUSTED_BASE = [
    "Lean 4.33.0 kernel; axioms propext, Classical.choice, Quot.sound only (audited with #print axioms on every run)",
    "Spec/*.lean: that the 8x8 rules, scratch key, FEN printer and negamax say what the property means",
    "T1 translator tools/gen_constants.py (constants/tables re-read from /repo/src on every run) and the Zobrist dump through the public getters",
    "T2 correspondence: model = code is validated by differential execution (harness wvh on the real sources, hooks on), not proved",
    "Rust semantics assumed by the model: integer/float/str primitives as documented in DESIGN.md section 4",
]


class Ctx:
    def __init__(self, prop, tier, seed, bs, machinery_ok, proof_ok, audit):
        self.prop = prop
        self.tier = tier
        self.seed = seed
        self.bs = bs
        self.machinery_ok = machinery_ok
        self.proof_ok = proof_ok
        self.audit = audit
        self.t2 = []
        self.fails = []
        self.evals = 0
        self.nontrivial = set()
        self.samples = []
        self.stats = {}
        self.traces = 0
        self.rule = ""
        self.notes = []
        self.partial = None
        self.deep_done = False
        self.exhaustive = False

    @property
    def quick(self):
        return self.tier != "thorough"

    # ---- bookkeeping
    def count(self, key, n=1):
        self.stats[key] = self.stats.get(key, 0) + n

    def case(self, ident, nontrivial):
        self.evals += 1
        if nontrivial:
            self.nontrivial.add(hash(ident))

    def sample(self, s):
        if len(self.samples) < 6:
            self.samples.append(s)

    def t2diff(self, r):
        if len(self.t2) < 50:
            self.t2.append({"op": r["op"][:300], "impl": (r["I"] or "")[:600], "model": (r["M"] or "")[:600]})
        self.count("t2_diffs")

    def fail(self, kind, **detail):
        self.count("oracle_failures")
        if len(self.fails) < 200:
            d = {"kind": kind}
            d.update(detail)
            self.fails.append(d)

    def broken_ties(self):
        b = []
        bs = self.bs
        if bs.harness_error:
            b.append("harness does not build from the current tree: " + bs.harness_error[-300:])
        if bs.translator_error:
            b.append("T1 translator: " + bs.translator_error)
        for m, e in bs.lean_errors.items():
            b.append("lake build failed in %s: %s" % (m, e[:600]))
        if not self.proof_ok and not bs.lean_errors and not bs.translator_error and not bs.harness_error:
            b.append("proof module Walleye.Props.%s did not build" % self.prop)
        for x in self.audit.get("bad", []):
            b.append("audit: " + x)
        if self.t2:
            b.append("T2 correspondence: model and implementation disagree on %d op(s), first: %s" % (
                self.stats.get("t2_diffs", len(self.t2)), json.dumps(self.t2[0])[:700]))
        return b

    def finish(self, wall):
        pass


def audit(prop, bs):
    """theorem inventory of Props/<prop>.lean and their axioms"""
    path = os.path.join(C.LEAN, "Walleye", "Props", prop + ".lean")
    text = open(path, encoding="utf-8").read()
    stripped = re.sub(r"/-.*?-/", "", text, flags=re.S)
    stripped = re.sub(r"--.*", "", stripped)
    names = re.findall(r"^\s*theorem\s+([\w.']+)", stripped, flags=re.M)
    bad = list(C.scan_forbidden())
    bad = ["forbidden construct: " + b for b in bad]
    os.makedirs(C.BUILD, exist_ok=True)
    af = os.path.join(C.BUILD, "audit_%s.lean" % prop)
    with open(af, "w") as f:
        f.write("import Walleye.Props.%s\nopen Walleye\n" % prop)
        for n in names:
            f.write("#print axioms %s\n" % n)
    r = C.sh(["lake", "env", "lean", af], cwd=C.LEAN, timeout=1800)
    ax = C.parse_axioms(r.stdout + r.stderr)
    thms = []
    for n in names:
        key = [k for k in ax if k == n or k.endswith("." + n)]
        if not key:
            bad.append("no axiom report for theorem " + n)
            thms.append({"name": n, "axioms": None})
            continue
        a = ax[key[0]]
        extra = [x for x in a if x not in C.ALLOWED_AXIOMS]
        if extra:
            bad.append("theorem %s depends on non-standard axioms %s" % (n, extra))
        thms.append({"name": n, "axioms": a})
    if not names:
        bad.append("no theorem found in Props/%s.lean" % prop)
    return {"theorems": thms, "bad": bad}


# =====================================================================================
# generic comparison of one batch of ops
# =====================================================================================

def compare_batch(ctx, res, oracle):
    """T2 on every op; `oracle(ctx, r)` decides implementation vs specification"""
    for r in res:
        body = C.impl_body(r["op"], r["I"])
        if r["M"] is None:
            ctx.t2diff({"op": r["op"], "I": r["I"], "M": "<no model run possible>"})
        elif body != r["M"]:
            ctx.t2diff({"op": r["op"], "I": body, "M": r["M"]})
        ctx.traces += 1
        oracle(ctx, r)


def prefix_of(res, i):
    """ops that established the context of op i (from the last fen/pos before it)"""
    j = i
    while j > 0 and not (res[j]["op"].startswith("fen ") or res[j]["op"].startswith("pos ")):
        j -= 1
    return [x["op"] for x in res[j:i + 1] if x["op"].split(" ")[0] in ("fen", "pos", "pick", "pickc", "mk") or x is res[i]]


def attach_context(res):
    for i, r in enumerate(res):
        r["_i"] = i
        r["_res"] = res


def context_ops(r):
    return prefix_of(r["_res"], r["_i"])


# ---------------------------------------------------------------- movegen family oracles

def oracle_gen(ctx, r, what="moves"):
    """what = 'moves' (C01: move set) | 'succ' (C02/C13: move + successor position)"""
    op = r["op"]
    if op.startswith("gennull "):
        # null-move clone: only the MOVES are judged (its key deliberately lacks the side term)
        what = "moves"
    elif not op.startswith("gen "):
        return
    if r["S"] == "-" or r["I"] == "panic":
        if r["I"] == "panic":
            ctx.fail("panic", ops=context_ops(r))
        return
    isucc = C.succ_list(r["I"])
    ssucc = C.succ_list(r["S"])
    if what == "moves":
        a = sorted(m for m, _ in isucc)
        b = sorted(m for m, _ in ssucc)
    else:
        a = sorted("%s|%s" % (m, C.state7(s)) for m, s in isucc)
        b = sorted(ssucc_item for ssucc_item in ("%s|%s" % (m, s) for m, s in ssucc))
    nontrivial = any(len(m) == 5 for m in b) or any(m[:4] in ("e1g1", "e1c1", "e8g8", "e8c8") for m in b) or len(b) != len(set(x[:4] for x in b)) or True
    ctx.case(("gen", op, r["S"][:80]), len(b) > 0)
    if what == "moves":
        feats = r["S"]
        if any(len(m) == 5 for m in b):
            ctx.count("positions_with_promotion")
        if any(m in ("e1g1", "e1c1", "e8g8", "e8c8") for m in b) and ("K" in feats or "Q" in feats or "k" in feats or "q" in feats):
            ctx.count("positions_with_castling_available")
    if a != b:
        extra = [x for x in a if x not in b]
        missing = [x for x in b if x not in a]
        dup = sorted(set(x for x in a if a.count(x) > 1))
        ctx.fail("gen-" + what, ops=context_ops(r), extra=extra[:8], missing=missing[:8], duplicate=dup[:8])
    else:
        ctx.sample({"ops": context_ops(r)[-3:], "n_moves": len(b)})


def oracle_state(ctx, r):
    """fen / pick / pickc / mk / pos : the seven property fields must equal the spec's"""
    op = r["op"].split(" ")[0]
    if op not in ("fen", "pick", "pickc", "mk", "pos"):
        return
    if r["I"] == "panic":
        if r["S"] != "-":
            ctx.fail("panic", ops=context_ops(r))
        return
    if r["S"] == "-":
        return
    if not r["I"].startswith("ok "):
        ctx.fail("rejected", ops=context_ops(r), impl=r["I"][:200])
        return
    body = r["I"][3:]
    if op == "pos":
        st, _, tbl = body.partition(" tbl=")
        sst, _, stbl = r["S"].partition(" tbl=")
        if C.state7(st) != sst:
            ctx.fail("state", ops=context_ops(r), impl=C.state7(st), spec=sst)
        return
    if C.state7(body) != r["S"]:
        ctx.fail("state", ops=context_ops(r), impl=C.state7(body), spec=r["S"])


def oracle_chk(ctx, r):
    if r["op"] != "chk" or r["S"] == "-":
        return
    ctx.case(("chk", tuple(context_ops(r))), "1" in r["S"])
    if r["I"] != r["S"]:
        ctx.fail("check", ops=context_ops(r), impl=r["I"], spec=r["S"])


def oracle_fmt(ctx, r):
    """after `pick m` the descriptor printed as bestmove must be exactly m"""
    if r["op"] != "fmt":
        return
    res, i = r["_res"], r["_i"]
    j = i - 1
    while j >= 0 and res[j]["op"].split(" ")[0] in ("gen", "chk", "eval", "fmt", "tbl"):
        j -= 1
    if j < 0 or not res[j]["op"].startswith("pick "):
        return
    if not res[j]["I"].startswith("ok "):
        return
    mv = res[j]["op"].split(" ")[1]
    ctx.case(("fmt", tuple(context_ops(r))), len(mv) == 5 or mv in ("e1g1", "e1c1", "e8g8", "e8c8"))
    if r["I"] != "bestmove " + mv:
        ctx.fail("bestmove-text", ops=context_ops(r), impl=r["I"], expected="bestmove " + mv)


def keys_consistent(ctx, res):
    """C05 route independence at the implementation level: the same position (placement, side,
    rights, ep) must never be seen with two different keys, whatever produced it"""
    seen = {}
    for r in res:
        op = r["op"].split(" ")[0]
        states = []
        if op in ("fen", "pick", "pickc", "mk", "pos") and r["I"].startswith("ok "):
            states.append(r["I"][3:])
        elif op == "gen":
            states.extend(s for _, s in C.succ_list(r["I"]))
        for st in states:
            f = st.split(" ")
            if len(f) < 7:
                continue
            core = " ".join(f[:4])
            key = f[6]
            if core in seen and seen[core][0] != key:
                ctx.fail("route-dependent-key", position=core, key_a=seen[core][0], via_a=seen[core][1],
                         key_b=key, via_b=context_ops(r))
            elif core not in seen:
                seen[core] = (key, context_ops(r))
            else:
                ctx.count("transpositions_seen")
    ctx.stats["distinct_positions_keyed"] = len(seen)


# =====================================================================================
# op sets
# =====================================================================================

def ep_pin_lattice(stride):
    """en passant with capturers on BOTH sides of the double-stepped pawn and one of them (or the pusher's
    neighbour on the other side) pinned to its king along every line: for each file of the pushed pawn, each
    of the two capturers, each of the 8 directions, every king distance and every slider distance on that line
    (squares in between empty), both colours; the enemy king on the first of a few far squares that the SPEC
    accepts.  Positions the SPEC rejects are skipped by the oracle (`S` = -)."""
    ops = []
    n = 0
    for white in (True, False):
        rank = 5 if white else 4                     # rank of the three pawns (1-based)
        for f in range(1, 9):                        # file of the pushed pawn
            caps = [c for c in (f - 1, f + 1) if 1 <= c <= 8]
            for pinned in caps:
                for dx, dy in ((1, 0), (-1, 0), (0, 1), (0, -1), (1, 1), (1, -1), (-1, 1), (-1, -1)):
                    for kd in range(1, 8):
                        kx, ky = pinned + dx * kd, rank + dy * kd
                        if not (1 <= kx <= 8 and 1 <= ky <= 8):
                            break
                        for sd in range(1, 8):
                            sx, sy = pinned - dx * sd, rank - dy * sd
                            if not (1 <= sx <= 8 and 1 <= sy <= 8):
                                break
                            n += 1
                            if n % stride:
                                continue
                            board = {}
                            ok = True
                            own, enemy = ("P", "p") if white else ("p", "P")
                            for c in caps:
                                board[(c, rank)] = own
                            board[(f, rank)] = enemy
                            line = [(pinned + dx * i, rank + dy * i) for i in range(1, kd)] + \
                                   [(pinned - dx * i, rank - dy * i) for i in range(1, sd)]
                            if any(sq in board for sq in line) or (kx, ky) in board or (sx, sy) in board:
                                continue
                            board[(kx, ky)] = "K" if white else "k"
                            slider = ("r" if dx == 0 or dy == 0 else "b") if white else ("R" if dx == 0 or dy == 0 else "B")
                            if (sd + kd) % 2:
                                slider = "q" if white else "Q"
                            board[(sx, sy)] = slider
                            ek = None
                            for cand in ((1, 8), (8, 8), (1, 1), (8, 1), (5, 8), (4, 1), (1, 4), (8, 5)):
                                if cand not in board and cand not in line and abs(cand[0] - kx) > 1 or abs(cand[1] - ky) > 1:
                                    if cand not in board and cand not in line:
                                        ek = cand
                                        break
                            if ek is None:
                                continue
                            board[ek] = "k" if white else "K"
                            rows = []
                            for y in range(8, 0, -1):
                                row, run = "", 0
                                for x in range(1, 9):
                                    ch = board.get((x, y))
                                    if ch is None:
                                        run += 1
                                    else:
                                        row += (str(run) if run else "") + ch
                                        run = 0
                                rows.append(row + (str(run) if run else ""))
                            ept = "abcdefgh"[f - 1] + ("6" if white else "3")
                            ops += ["fen %s %s - %s 0 1" % ("/".join(rows), "w" if white else "b", ept), "gen all", "gen cap"]
    return ops


def onto_ep_square_lattice():
    """text replay of a NON-PAWN piece moving onto the square a pawn has just skipped (the en passant target,
    given in the FEN): every piece kind from every square it reaches that target from, both colours, every file;
    nothing but the moved piece may change.  `pos position fen F moves m` against the SPEC's apply."""
    ops = []
    for white in (True, False):
        prank, trank = (5, 6) if white else (4, 3)          # pushed pawn's rank, target rank (1-based)
        for f in range(1, 9):
            target = (f, trank)
            for kind in "NBRQK":
                if kind == "N":
                    froms = [(f + dx, trank + dy) for dx, dy in ((1, 2), (2, 1), (-1, 2), (-2, 1), (1, -2), (2, -1), (-1, -2), (-2, -1))]
                elif kind == "K":
                    froms = [(f + dx, trank + dy) for dx in (-1, 0, 1) for dy in (-1, 0, 1) if (dx, dy) != (0, 0)]
                else:
                    dirs = [(1, 0), (-1, 0), (0, 1), (0, -1)] if kind == "R" else [(1, 1), (1, -1), (-1, 1), (-1, -1)] if kind == "B" \
                        else [(1, 0), (-1, 0), (0, 1), (0, -1), (1, 1), (1, -1), (-1, 1), (-1, -1)]
                    froms = [(f + dx * d, trank + dy * d) for dx, dy in dirs for d in (1, 2, 3)]
                for fr in froms:
                    if not (1 <= fr[0] <= 8 and 1 <= fr[1] <= 8) or fr == (f, prank):
                        continue
                    # the line from `fr` to the target must not pass through the pushed pawn
                    if kind in "RBQ":
                        step = ((target[0] > fr[0]) - (target[0] < fr[0]), (target[1] > fr[1]) - (target[1] < fr[1]))
                        sq, blocked = (fr[0] + step[0], fr[1] + step[1]), False
                        while sq != target:
                            if sq == (f, prank):
                                blocked = True
                            sq = (sq[0] + step[0], sq[1] + step[1])
                        if blocked:
                            continue
                    board = {(f, prank): "p" if white else "P", fr: kind if white else kind.lower()}
                    kings = []
                    if kind != "K":
                        kings.append("K" if white else "k")
                    kings.append("k" if white else "K")
                    spots = [(1, 1), (8, 1), (1, 8), (8, 8), (4, 1), (5, 8)]
                    for kg in kings:
                        own = kg == ("K" if white else "k")
                        for sp in (spots if own == white else spots[::-1]):
                            if sp not in board and sp != target and all(max(abs(sp[0] - o[0]), abs(sp[1] - o[1])) > 1
                                                                         for o, ch in board.items() if ch in "Kk"):
                                board[sp] = kg
                                break
                    rows = []
                    for y in range(8, 0, -1):
                        row, run = "", 0
                        for x in range(1, 9):
                            ch = board.get((x, y))
                            if ch is None:
                                run += 1
                            else:
                                row += (str(run) if run else "") + ch
                                run = 0
                        rows.append(row + (str(run) if run else ""))
                    sqn = lambda p: "abcdefgh"[p[0] - 1] + str(p[1])
                    ops.append("pos position fen %s %s - %s 0 1 moves %s%s" % ("/".join(rows), "w" if white else "b", sqn(target), sqn(fr), sqn(target)))
    return ops


def movegen_ops(ctx, scale=1):
    q = ctx.quick
    ops = []
    ops += C.genops("walk", ctx.seed, (60 if q else 1500) * scale, 60, 5)
    ops += C.genops("fenpos", ctx.seed + 1, (400 if q else 20000) * scale)
    ops += C.genops("castle", ctx.seed + 2, 9 if q else 1)
    ops += C.genops("pairs", 0, 1)          # exhaustive special two-ply chains from every stem
    # generated successors of check-giving castlings / line-uncovering en passant captures: the
    # reply generation from a board that CARRIES that move descriptor (evasions only)
    ops += C.genops("chkmoves", ctx.seed + 3, 1 if q else 1, "chk", "gen all", "gen cap")
    # home-rook lattice: every capture of a corner rook by every piece from every square (corner to
    # corner included, promotions included) and every king / rook move off a home square, then the
    # generation from the generated successor
    ops += C.genops("rights", 0, "fmt", "gen all", "gen cap")
    # en passant with two capturers, one of them pinned along any line (exhaustive in the thorough tier)
    ops += ep_pin_lattice(7 if q else 1)
    return ops


def run_and_compare(ctx, ops, oracles):
    res = C.run_ops(ops)
    attach_context(res)

    def oracle(ctx, r):
        for o in oracles:
            o(ctx, r)
    compare_batch(ctx, res, oracle)
    return res


# =====================================================================================
# the checks
# =====================================================================================

def check_C01(ctx, deep=False):
    ctx.rule = ("legal positions from SPEC playouts over %d curated stems, SPEC-constructed random positions and the "
                "castling lattice (own K+R+R at home x enemy king on every square x one extra enemy piece); a case = one "
                "`gen all` on one position, compared as a multiset of (from,to,promotion) with Spec.legalMoves; "
                "non-trivial = position has at least one legal move" % 43)
    ops = movegen_ops(ctx, 4 if deep else 1)
    run_and_compare(ctx, ops, [lambda c, r: oracle_gen(c, r, "moves") if r["op"] == "gen all" else None,
                               lambda c, r: None])
    cli_perft(ctx, 40 if ctx.quick else 600)


def cli_perft(ctx, n):
    """black box: the RELEASE binary's own test bench (`walleye -T -d 2 --fen F`: hooks off, release
    arithmetic) must visit exactly perft(1) + perft(2) positions as counted by the SPEC"""
    import subprocess
    if ctx.bs.engine_error:
        ctx.notes.append("engine binary unavailable for the perft runs")
        return
    fens = []
    for kind, args in (("fenpos", (n,)), ("castle", (97,)), ("chkmoves", (9, "chk"))):
        for o in C.genops(kind, ctx.seed + 21, *args):
            if o.startswith("fen ") and len(fens) < 3 * n:
                fens.append(o[4:])
    fens = fens[::max(1, len(fens) // n)][:n]
    ops = []
    for f in fens:
        ops += ["fen " + f, "perft 2"]
    res = C.run_ops(ops)
    expect = {}
    for i in range(0, len(res), 2):
        if res[i + 1]["S"] not in ("-", None):
            expect[res[i]["op"][4:]] = int(res[i + 1]["S"])
            if res[i + 1]["M"] != res[i + 1]["S"]:
                ctx.fail("perft-model-vs-spec", fen=res[i]["op"][4:], model=res[i + 1]["M"], spec=res[i + 1]["S"])

    def one(f):
        try:
            p = subprocess.run([C.ENGINE, "--fen=" + f, "-T", "-d", "2"], capture_output=True, text=True, timeout=60)
        except subprocess.TimeoutExpired:
            return f, None, "timeout"
        m = re.search(r"evaluated (\d+) nodes", p.stdout + p.stderr)
        return f, (int(m.group(1)) if m else None), (p.stdout + p.stderr)[-200:]
    from concurrent.futures import ThreadPoolExecutor
    with ThreadPoolExecutor(max_workers=8) as ex:
        for f, nodes, raw in ex.map(one, list(expect)):
            ctx.count("cli_perft_runs")
            ctx.case(("cli-perft", f), True)
            if nodes != expect[f]:
                ctx.fail("release-binary-perft", fen=f, depth=2, binary_nodes=nodes, spec_nodes=expect[f], output=raw)


def check_C02(ctx, deep=False):
    ctx.rule = ("same positions as C01, walked through GENERATED successors (`pick`), so inherited fields are exercised; "
                "a case = one successor list compared as a multiset of (move text, placement, side, rights, ep, king squares) "
                "with the SPEC's apply, plus the printed bestmove text of every picked successor")
    ops = movegen_ops(ctx, 4 if deep else 1)
    # every successor the generator can produce: the full generation AND the capture-only generation the
    # quiescence search uses (same code, another mode: bookkeeping must not depend on the mode)
    run_and_compare(ctx, ops, [lambda c, r: oracle_gen(c, r, "succ") if r["op"] in ("gen all", "gen cap") else None,
                               oracle_state, oracle_fmt])


def check_C13(ctx, deep=False):
    ctx.rule = ("capture chains through capture-only successors (`pickc`) to depth 6 from playout positions, plus all "
                "C01 positions with `gen cap`; compared with the SPEC's legal captures and their resulting positions")
    q = ctx.quick
    ops = C.genops("cap", ctx.seed, (300 if q else 8000) * (4 if deep else 1), 40, 6)
    ops += movegen_ops(ctx)
    # quiescence is also entered from NULL-MOVE boards (side flipped in memory, en passant target of
    # the move before still set): capture-only generation there, after every ply of playouts that
    # are rich in double steps, and after every special two-ply chain
    nops = []
    for o in C.genops("walk", ctx.seed + 5, 60 if q else 1500, 40, 0) + C.genops("pairs", 0, 1):
        k = o.split(" ")[0]
        if k in ("fen", "pick"):
            nops += [o, "gennull cap", "gennull all"]
    ops += nops
    run_and_compare(ctx, ops, [lambda c, r: oracle_gen(c, r, "succ") if r["op"] == "gen cap" else None,
                               lambda c, r: oracle_gen(c, r, "moves") if r["op"].startswith("gennull ") else None, oracle_state])
    # the capture lists AS THE QUIESCENCE SEARCH CONSUMES THEM (hook H4 logs the list used at every
    # quiescence node; the model replays the log and demands, entry by entry, a permutation of ITS
    # capture-only generation for the board at that node, sorted by its ordering value): real searches
    # deep enough to revisit positions and to enter quiescence from null-move twins (iteration 4; 5 in the thorough tier)
    sops = props2.search_positions(ctx, 10 if q else 120, 30, "searchd 4", with_rep=False)
    if not q:
        sops += C.genops("search", ctx.seed + 9, 24, 30, "gen_all", "searchd_5")
    sres = C.run_ops(sops)
    props2.t2_search(ctx, sres)
    ctx.count("deep_searches_with_capture_list_replay", sum(1 for r in sres if r["op"].startswith("searchd")))


def check_C04(ctx, deep=False):
    ctx.rule = ("`position fen <start> moves …` for every 5th prefix and the full game of SPEC playouts, compared with the "
                "SPEC's applyAll (placement, side, rights, ep, king squares, scratch key) and with the chain of generated "
                "successors picked along the same moves")
    q = ctx.quick
    ops = C.genops("walk", ctx.seed, (150 if q else 4000) * (4 if deep else 1), 80, 1 if not q else 2)
    ops += onto_ep_square_lattice()
    res = run_and_compare(ctx, ops, [oracle_state])
    # generated-successor chain vs text replay: same position => same state7
    last_pick = None
    for r in res:
        op = r["op"].split(" ")[0]
        if op == "pick" and r["I"].startswith("ok "):
            last_pick = r
        elif op == "pos" and last_pick is not None and r["I"].startswith("ok "):
            # the pos line replays exactly the moves picked so far
            nm = len(r["op"].split(" moves ")[1].split(" ")) if " moves " in r["op"] else 0
            st = r["I"][3:].partition(" tbl=")[0]
            ctx.case(("pos", r["op"]), nm > 0)
            r["_nm"] = nm
    # pair each pos with the pick that made the same prefix
    picks = []
    for r in res:
        op = r["op"].split(" ")[0]
        if op == "fen":
            picks = []
        elif op == "pick" and r["I"].startswith("ok "):
            picks.append(r)
        elif op == "pos" and r["I"].startswith("ok ") and " moves " in r["op"]:
            nm = len(r["op"].split(" moves ")[1].split(" "))
            if nm == len(picks) and nm > 0:
                a = C.state7(picks[-1]["I"][3:])
                b = C.state7(r["I"][3:].partition(" tbl=")[0])
                if a != b:
                    ctx.fail("replay-vs-generated", ops=[r["op"]], generated=a, replayed=b)
                else:
                    ctx.sample({"op": r["op"][:160], "state": b})


def check_C05(ctx, deep=False):
    ctx.rule = ("every state printed by fen/pick/pickc/mk/pos/gen carries the incremental key; it is compared with the SPEC's "
                "scratch key (real hasher constants) and all states of the run are grouped by position to detect two "
                "keys for one position (route dependence); non-trivial = position reached by at least one move")
    q = ctx.quick
    ops = C.genops("walk", ctx.seed, (100 if q else 3000) * (4 if deep else 1), 60, 3)
    ops += C.genops("cap", ctx.seed + 5, 100 if q else 3000, 30, 6)
    # the special-move lattices: exhaustive two-ply chains, home-rook captures / departures, castling
    # with every subset of rights left (a key term toggled for a right that is not held shows there)
    ops += C.genops("pairs", 0, 2 if q else 1)
    ops += C.genops("rights", 0, "gen all")
    ops += C.genops("castlerights", 0, "gen all")
    res = run_and_compare(ctx, ops, [oracle_state, lambda c, r: oracle_gen(c, r, "succ") if r["op"].startswith("gen ") else None])
    keys_consistent(ctx, res)


def check_C06(ctx, deep=False):
    ctx.rule = ("check lattice: king square x enemy piece kind x enemy piece square (+ random blocker of either colour), both "
                "colours, turn legality irrelevant; plus every playout position; `is_check` for both colours vs Spec.inCheck; "
                "non-trivial = at least one side is in check")
    q = ctx.quick
    stride = (60 if q else 1)
    if deep:
        stride = max(1, stride // 8)
    ops = C.genops("chk", ctx.seed, stride)
    ops += [o for o in C.genops("walk", ctx.seed + 1, 40 if q else 600, 60, 0) if o.split(" ")[0] in ("fen", "pick", "chk")]
    # `is_check` on GENERATED successors (boards that carry a move descriptor) after special moves
    # that give check: castling whose rook checks, en passant uncovering a line (exhaustive lattices)
    ops += C.genops("chkmoves", ctx.seed + 2, 1, "chk")
    # ... and on boards built by the TEXT applier (`position ... moves`: `make_move` keeps the king
    # squares `is_check` starts from): the same special moves and playouts, each move applied by its text
    for o in C.genops("chkmoves", ctx.seed + 2, 1, "chk") + \
            [o for o in C.genops("walk", ctx.seed + 3, 40 if q else 600, 60, 0) if o.split(" ")[0] in ("fen", "pick", "chk")]:
        ops.append("mk " + o[5:] if o.startswith("pick ") else o)
    # ... and on boards out of the CAPTURE-ONLY generation (the quiescence search's boards: king captures,
    # chains of captures), `is_check` after every capture-only successor picked
    for o in C.genops("cap", ctx.seed + 4, 150 if q else 4000, 40, 6):
        ops.append(o)
        if o.startswith("pickc "):
            ops.append("chk")
    run_and_compare(ctx, ops, [oracle_chk])
    ctx.exhaustive = (stride == 1)


CHECKS = {
    "C01": {"fn": check_C01, "engine": True},
    "C02": {"fn": check_C02},
    "C04": {"fn": check_C04},
    "C05": {"fn": check_C05},
    "C06": {"fn": check_C06},
    "C13": {"fn": check_C13},
}


import props2  # noqa: E402  (needs the helpers above)

CHECKS.update({
    "C03": {"fn": props2.check_C03, "engine": True, "trace": True},
    "C07": {"fn": props2.check_C07},
    "C08": {"fn": props2.check_C08, "engine": True, "trace": True},
    "C09": {"fn": props2.check_C09, "engine": True, "trace": True},
    "C10": {"fn": props2.check_C10, "engine": True, "trace": True},
    "C11": {"fn": props2.check_C11},
    "C12": {"fn": props2.check_C12, "engine": True},
    "C14": {"fn": props2.check_C14},
    "C15": {"fn": props2.check_C15, "engine": True},
    "C16": {"fn": props2.check_C16, "engine": True, "trace": True},
    "C17": {"fn": props2.check_C17, "engine": True, "trace": True},
    "C18": {"fn": props2.check_C18, "engine": True, "trace": True},
})

# =====================================================================================
# verdict
# =====================================================================================

def finding_matches(f, fail):
    """a known finding matches a failure when every key of its `match` dict is found in the failure"""
    m = f.get("match", {})
    text = json.dumps(fail, sort_keys=True)
    return all(str(v) in text for v in m.values())


def run_check(ctx, spec):
    t0 = time.time()
    if ctx.machinery_ok:
        try:
            spec["fn"](ctx)
        except Exception as e:  # harness/driver crashed: the tie is broken
            ctx.notes.append("run error: %r" % (e,))
            ctx.t2.append({"op": "<run>", "impl": "", "model": repr(e)[:500]})
    elif os.path.exists(C.WVM):
        # harness/model unavailable: black-box search for a failing input where that makes sense
        try:
            props2.blackbox_fallback(ctx)
        except Exception as e:
            ctx.notes.append("black-box fallback error: %r" % (e,))
    broken = ctx.broken_ties()
    if broken and not ctx.fails and ctx.machinery_ok:
        # the property is no longer shown: search harder for a concrete failing input
        try:
            ctx.deep_done = True
            ctx.seed += 7919
            spec["fn"](ctx, deep=True)
        except Exception as e:
            ctx.notes.append("deep search error: %r" % (e,))
    rc = 0
    known = [f for f in C.load_known_findings() if f.get("property") == ctx.prop and f.get("status") == "known"]
    unlisted = []
    for fl in ctx.fails:
        hit = [f for f in known if finding_matches(f, fl)]
        if hit:
            print("KNOWN-FINDING: property=%s %s" % (ctx.prop, hit[0].get("what", "")))
        else:
            unlisted.append(fl)
    if unlisted:
        # smallest context first
        unlisted.sort(key=lambda d: len(json.dumps(d)))
        payload = {"property": ctx.prop, "kind": "failing-input", "failure": unlisted[0],
                   "other_failures": unlisted[1:10], "n_failures": ctx.stats.get("oracle_failures", len(unlisted)),
                   "broken_ties": broken, "seed": ctx.seed, "tier": ctx.tier,
                   "how_to_replay": "./check %s --replay <this file>" % ctx.prop}
        p = C.write_replay(ctx.prop, payload)
        print("VIOLATION property=%s replay=%s" % (ctx.prop, p))
        rc = 1
    elif broken:
        payload = {"property": ctx.prop, "kind": "no-failing-input-found", "no_longer_checks": broken,
                   "t2_examples": ctx.t2[:5], "searched": {"evaluations": ctx.evals, "deep": ctx.deep_done},
                   "seed": ctx.seed, "tier": ctx.tier}
        p = C.write_replay(ctx.prop, payload)
        print("VIOLATION property=%s replay=%s no-failing-input-found" % (ctx.prop, p))
        rc = 1
    ctx._rc = rc
    ctx._broken = broken
    ctx._unlisted = len(unlisted)
    return rc


def _finish(ctx, wall):
    thms = ctx.audit.get("theorems", [])
    discharged = sum(1 for t in thms if t["axioms"] is not None and all(a in C.ALLOWED_AXIOMS for a in t["axioms"]))
    if not ctx.proof_ok:
        discharged = 0
    cov = {
        "obligations": max(len(thms), 1),
        "discharged": discharged,
        "checker_cmd": "cd lean && lake build Walleye.Props.%s && lake env lean ../build/audit_%s.lean  (kernel check + #print axioms; thorough tier adds leanchecker)" % (ctx.prop, ctx.prop),
        "trusted_base": TRUSTED_BASE,
        "theorems": thms,
        "leanchecker": ctx.audit.get("leanchecker", "not run in the quick tier"),
        "evaluations": ctx.evals,
        "distinct_nontrivial": len(ctx.nontrivial),
        "rule": ctx.rule,
        "samples": ctx.samples or [{"note": "no sample recorded"}],
        "traces_validated_against_impl": ctx.traces,
        "t2_disagreements": ctx.stats.get("t2_diffs", 0),
        "oracle_failures": ctx.stats.get("oracle_failures", 0),
        "stats": ctx.stats,
        "exhaustive": bool(ctx.exhaustive),
        "broken_ties": getattr(ctx, "_broken", []),
        "notes": ctx.notes,
    }
    if ctx.partial:
        cov["partial"] = ctx.partial
    C.write_evidence(ctx.prop, "thorough" if ctx.tier == "thorough" else "quick", ctx.seed, "proof", cov,
                     ["model<->code tie is differential (T2), see trusted_base", "runtime behaviour (threads, wall clock) observed, not proved"],
                     wall, getattr(ctx, "_unlisted", 0))
    print("%s %s tier=%s evals=%d nontrivial=%d t2_diffs=%d oracle_failures=%d theorems=%d/%d wall=%.1fs" % (
        ctx.prop, "OK" if getattr(ctx, "_rc", 1) == 0 else "FAIL", ctx.tier, ctx.evals, len(ctx.nontrivial),
        ctx.stats.get("t2_diffs", 0), ctx.stats.get("oracle_failures", 0), discharged, len(thms), wall))


Ctx.finish = _finish


def replay_session(payload, fl):
    """black-box failures: rebuild the command lines recorded with the failure and put them to the
    real binary again (current tree), printing everything it answers"""
    import session as S
    lines = []
    for key in ("script", "transcript", "context_lines", "traffic"):
        v = fl.get(key)
        if isinstance(v, list) and v:
            lines = [x for x in v if isinstance(x, str) and not x.startswith("-> ")]
            break
    if not lines:
        for key in ("position", "pos", "after"):
            if isinstance(fl.get(key), str):
                p = fl[key]
                lines.append(p[4:] if p.startswith("pos ") else p)
        g = fl.get("gos") or ([fl["go"]] if isinstance(fl.get("go"), str) else []) or ([fl["line"]] if isinstance(fl.get("line"), str) else [])
        lines += [x for x in g if isinstance(x, str) and not x.startswith("(after)")]
        if fl.get("clock") is not None:
            lines.append("go wtime %s btime %s" % (fl["clock"], fl["clock"]) + (" movestogo %s" % fl["movestogo"] if fl.get("movestogo") else ""))
    print(json.dumps(payload, indent=1)[:2500])
    if not lines:
        print("(no command lines recorded with this failure: nothing to put to the binary)")
        return 0
    bs = C.BuildState()
    C.build_engine(bs)
    if bs.engine_error:
        print("engine does not build:", bs.engine_error[-300:])
        return 1
    e = S.Engine()
    try:
        print("--- replay against the current tree")
        if not S.handshake(e):
            print("no handshake")
            return 1
        for l in lines:
            print(">>", l)
            if l.split(" ")[0].strip() == "go":
                r = S.go_and_wait(e, l, 30)
                for x in r["infos"][-3:]:
                    print("<<", x)
                print("<<", r["best"], "(%.0f ms, bestmove lines: %s, readyok: %s)" % (
                    ((r["t_best"] or 0) - r["t_go"]) * 1000 if r["answered"] else -1, r["n_best"], r["ready"]))
            else:
                e.send(l)
                for _, x in e.drain(0.3):
                    print("<<", x)
        lb = fl.get("last_bytes")
        if lb:
            print(">> (raw)", lb)
        e.close_stdin()
        print("exit status after end of input:", e.wait_exit(5.0))
    finally:
        e.kill()
    return 0


def replay(prop, path):
    payload = json.load(open(path))
    fl = payload.get("failure", {})
    ops = fl.get("ops") or fl.get("via_b") or []
    if not ops and isinstance(fl.get("where"), list) and fl["where"] and str(fl["where"][0]).startswith("pos "):
        # search-family failures: position + search op (+ the expiry index as the last element)
        w = [x for x in fl["where"] if isinstance(x, str)]
        ops = [w[0], "gen all"] + [x for x in w[1:] if x.split(" ")[0] in ("searchd", "search", "sweep")]
    if not ops:
        return replay_session(payload, fl)
    bs = C.BuildState()
    C.build_harness(bs)
    res = C.run_ops(ops, parallel=False)
    for r in res:
        print("op  :", r["op"][:300])
        print("impl:", (r["I"] or "")[:1000])
        print("modl:", (r["M"] or "")[:1000])
        print("spec:", (r["S"] or "")[:1000])
    return 0
